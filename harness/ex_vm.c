/* ex_vm: a small "object VM".  Each op maps 1:1 onto one Cello API call applied to objects
 * held in numbered slots, inside the real try/catch macros, and prints what was observed.
 * The generators and reference models live in Python (lib/vf/props).
 *
 * Argument syntax:  %N slot N | i:<dec> | f:<16 hex bits> | s:<hex> | t:<TypeName> | fn:<name>
 *                   | null | term | _
 * Temporaries (i: f: s:) are stack-class objects (AllocStack header) living until the case ends.
 */
#include "common.h"

#define NSLOT 256
static var* S;

/* ---- per-case arena ------------------------------------------------------------------- */
static void** arena = NULL; static size_t narena = 0, carena = 0;
static void* keep(void* p) {
  if (narena is carena) { carena = carena ? carena * 2 : 1024; arena = realloc(arena, carena * sizeof(void*)); }
  arena[narena++] = p; return p;
}
/* The temporaries of a case are released three cases later: a garbage heap object that the conservative
** scan happens to retain (a Zip built over stack-class temporaries) may still be traced by a later
** collection and must not point into freed memory. */
#define ARENA_GENS 3
static void** old_arena[ARENA_GENS]; static size_t old_n[ARENA_GENS];
static void arena_free(void) {
  for (size_t i = 0; i < old_n[ARENA_GENS-1]; i++) { free(old_arena[ARENA_GENS-1][i]); }
  free(old_arena[ARENA_GENS-1]);
  for (int g = ARENA_GENS-1; g > 0; g--) { old_arena[g] = old_arena[g-1]; old_n[g] = old_n[g-1]; }
  old_arena[0] = arena; old_n[0] = narena;
  arena = NULL; narena = 0; carena = 0;
}

static var mk_stack(var type, const void* data, size_t sz) {
  /* 16 bytes of padding in front: if the library ever passes this "stack" object to free(), the pointer
  ** is not the start of a malloc block and ASan reports it at once */
  char* buf = keep(calloc(1, 16 + sizeof(struct Header) + sz + 8));
  var o = header_init(buf + 16, type, AllocStack);
  memcpy(o, data, sz);
  return o;
}

/* ---- Blob: a plain struct with no instances (default byte-wise cmp/hash/assign) ------- */
struct Blob { unsigned char b[16]; };
static var Blob = Cello(Blob);
/* plain structs whose size is not a multiple of 8 (default cmp/hash/assign/swap over odd sizes); literals b3:<hex> b20:<hex> */
struct Blob3 { unsigned char b[3]; };
static var Blob3 = Cello(Blob3);
struct Blob20 { unsigned char b[20]; };
static var Blob20 = Cello(Blob20);
struct Blob75 { unsigned char b[75]; };       /* larger than any chunk buffer a byte-wise default might use */
static var Blob75 = Cello(Blob75);
/* user types whose names are prefixes / extensions of other type names (name order, exact name equality) */
static var Blo = CelloEmpty(Blo);
static var BlobX = CelloEmpty(BlobX);
static var In = CelloEmpty(In);
static var IntX = CelloEmpty(IntX);
/* Tri: a 3-byte plain struct - an element size that is not a multiple of the pointer size (C04/C11) */
struct Tri { unsigned char b[3]; };
static var Tri = Cello(Tri);

/* ---- Probe: element type with constructor, assignment, destructor, owning heap memory - */
/* 28 bytes: not a multiple of the word size, like a user struct of int members; `tail` is a function of the token, so an
 * internal move that carries only part of an element (word-wise copy or swap that forgets the last bytes) leaves a torn
 * element, which every later use of it reports */
struct __attribute__((packed, aligned(4))) Probe { int64_t token; int64_t val; char* mem; int32_t tail; };
#define PROBE_TAIL(TOK) ((int32_t)((uint64_t)(TOK) * 2654435761u + 12345u))
static var Probe;  /* defined after its methods */
static int64_t next_token = 1, epoch_token = 1, live_count = 0;
static unsigned char* tok_live = NULL; static int64_t tok_cap = 0;
static char inv_msg[256] = "";
static int probe_mode = 0;
static int64_t probe_cmps = 0;     /* Probe_Cmp calls since the last `cmps` op (C03: comparisons per Tree operation) */

static void inv(const char* m) { if (not inv_msg[0]) { snprintf(inv_msg, sizeof inv_msg, "%s", m); } }

static void probe_issue(struct Probe* p) {
  if (next_token >= tok_cap) {
    int64_t nc = tok_cap ? tok_cap * 2 : 1 << 16;
    tok_live = realloc(tok_live, nc); memset(tok_live + tok_cap, 0, nc - tok_cap); tok_cap = nc;
  }
  p->token = next_token++;
  p->tail = PROBE_TAIL(p->token);
  tok_live[p->token] = 1;
  live_count++;
  p->mem = malloc(8);
}
static bool probe_tok_ok(struct Probe* p, const char* where) {
  if (p->token < 0 or p->token >= next_token) { inv(where); return false; }
  if (p->token isnt 0 and p->tail isnt PROBE_TAIL(p->token)) { inv("torn-element (the last bytes belong to another element)"); return false; }
  return true;
}
static void Probe_New(var self, var args) {
  struct Probe* p = self;
  if (p->token isnt 0) { inv("construct-on-nonzero-memory"); }
  probe_issue(p);
  if (len(args) > 0) {
    var a = get(args, $I(0));
    p->val = type_of(a) is Probe ? ((struct Probe*)a)->val : c_int(a);
  }
}
static void Probe_Del(var self) {
  struct Probe* p = self;
  if (p->token is 0) { return; }                       /* never assigned (zero padding) */
  if (not probe_tok_ok(p, "destruct-garbage-token")) { return; }
  if (not tok_live[p->token]) { inv("double-finalise"); return; }
  tok_live[p->token] = 0;
  if (p->token >= epoch_token) { live_count--; }
  free(p->mem); p->mem = NULL;
}
static void Probe_Assign(var self, var obj) {
  struct Probe* p = self;
  struct Probe* q = cast(obj, Probe);
  if (not probe_tok_ok(q, "assign-from-garbage-token")) { return; }
  if (q->token isnt 0 and not tok_live[q->token]) { inv("assign-from-finalised"); }
  if (p->token is 0) { probe_issue(p); }
  else if (not probe_tok_ok(p, "assign-onto-garbage-token")) { return; }
  else if (not tok_live[p->token]) { inv("assign-onto-finalised"); }
  p->val = q->val;
}
static int Probe_Cmp(var self, var obj) {
  struct Probe* p = self;
  struct Probe* q = cast(obj, Probe);
  if (p->token > 0 and p->token < next_token and not tok_live[p->token]) { inv("cmp-finalised"); }
  if (p->token > 0 and p->token < next_token and p->tail isnt PROBE_TAIL(p->token)) { inv("torn-element (the last bytes belong to another element)"); }
  if (q->token > 0 and q->token < next_token and q->tail isnt PROBE_TAIL(q->token)) { inv("torn-element (the last bytes belong to another element)"); }
  probe_cmps++;
  return p->val < q->val ? -1 : p->val > q->val;
}
static uint64_t Probe_Hash(var self) {
  struct Probe* p = self;
  switch (probe_mode) {
    case 1: return (uint64_t)(p->val % 7);
    case 2: return 42;
    case 3: return (uint64_t)p->val * 5ULL*11*23*53*101*197;
    default: return (uint64_t)p->val;
  }
}

static var Probe = Cello(Probe,
  Instance(New, Probe_New, Probe_Del),
  Instance(Assign, Probe_Assign),
  Instance(Cmp, Probe_Cmp),
  Instance(Hash, Probe_Hash));

/* ---- functions for Filter / Map / sort_by ------------------------------------------- */
static struct Int mapbuf[64]; static var mapobj[64]; static int mapi = 0;
static var fn_ret(int64_t v) {
  mapi = (mapi + 1) % 64;
  ((struct Int*)mapobj[mapi])->val = v;
  return mapobj[mapi];
}
static int64_t ival(var x) {
  while (type_of(x) is Tuple) { x = get(x, $I(0)); }   /* zipped / enumerated items: first component */
  return c_int(x);
}
static var f_even(var x) { return ival(x) % 2 is 0 ? x : NULL; }
static var f_odd(var x)  { return ival(x) % 2 isnt 0 ? x : NULL; }
static var f_pos(var x)  { return ival(x) > 0 ? x : NULL; }
static var f_all(var x)  { return x; }
static var f_none(var x) { return NULL; }
static var f_m3(var x)   { return ival(x) % 3 is 0 ? x : NULL; }
static var f_dbl(var x)  { return fn_ret(ival(x) * 2); }
static var f_neg(var x)  { return fn_ret(-ival(x)); }
static var f_id(var x)   { return x; }
/* recording variants (C11): every call is logged, so a test can see on which items a view called its function */
static int64_t rec_log[8192]; static size_t rec_n = 0;
static void rec_add(int64_t v) { if (rec_n < 8192) { rec_log[rec_n++] = v; } }
static var f_recdbl(var x)  { rec_add(ival(x)); return fn_ret(ival(x) * 2); }
static var f_receven(var x) { rec_add(ival(x)); return ival(x) % 2 is 0 ? x : NULL; }
static var f_recid(var x)   { rec_add(ival(x)); return x; }
static struct { const char* name; var (*f)(var); var obj; } fns[] = {
  {"even", f_even}, {"odd", f_odd}, {"pos", f_pos}, {"all", f_all}, {"none", f_none},
  {"m3", f_m3}, {"dbl", f_dbl}, {"neg", f_neg}, {"id", f_id},
  {"recdbl", f_recdbl}, {"receven", f_receven}, {"recid", f_recid}, {NULL, NULL}
};
static bool cmp_gt(var a, var b) { return gt(a, b); }
static bool cmp_lt(var a, var b) { return lt(a, b); }
static bool cmp_ge(var a, var b) { return ge(a, b); }
static bool cmp_le(var a, var b) { return le(a, b); }

/* ---- type names --------------------------------------------------------------------- */
static struct { const char* name; var* t; } types[] = {
  {"Type",&Type},{"Tuple",&Tuple},{"Ref",&Ref},{"Box",&Box},{"Int",&Int},{"Float",&Float},{"String",&String},
  {"Tree",&Tree},{"List",&List},{"Array",&Array},{"Table",&Table},{"Range",&Range},{"Slice",&Slice},
  {"Zip",&Zip},{"Filter",&Filter},{"Map",&Map},{"File",&File},{"Mutex",&Mutex},{"Thread",&Thread},
  {"Process",&Process},{"Function",&Function},{"Exception",&Exception},
#ifndef CELLO_NGC
  {"GC",&GC},
#endif
  {"IOError",&IOError},{"KeyError",&KeyError},{"BusyError",&BusyError},{"TypeError",&TypeError},
  {"ValueError",&ValueError},{"ClassError",&ClassError},{"FormatError",&FormatError},
  {"ResourceError",&ResourceError},{"OutOfMemoryError",&OutOfMemoryError},
  {"IndexOutOfBoundsError",&IndexOutOfBoundsError},{"SegmentationError",&SegmentationError},
  {"Doc",&Doc},{"Help",&Help},{"Cast",&Cast},{"Size",&Size},{"Alloc",&Alloc},{"New",&New},{"Copy",&Copy},
  {"Assign",&Assign},{"Swap",&Swap},{"Cmp",&Cmp},{"Hash",&Hash},{"Len",&Len},{"Iter",&Iter},{"Push",&Push},
  {"Concat",&Concat},{"Get",&Get},{"Sort",&Sort},{"Resize",&Resize},{"C_Str",&C_Str},{"C_Int",&C_Int},
  {"C_Float",&C_Float},{"Stream",&Stream},{"Pointer",&Pointer},{"Call",&Call},{"Format",&Format},
  {"Show",&Show},{"Current",&Current},{"Start",&Start},{"Lock",&Lock},{"Mark",&Mark},
  {"Blob",&Blob},{"Blob3",&Blob3},{"Blob20",&Blob20},{"Blob75",&Blob75},{"Probe",&Probe},{"Blo",&Blo},{"BlobX",&BlobX},{"In",&In},{"IntX",&IntX},{"Tri",&Tri},{NULL,NULL}
};
static var type_by_name(const char* n) {
  for (int i = 0; types[i].name; i++) { if (strcmp(types[i].name, n) is 0) { return *types[i].t; } }
  harness_bug("unknown type name");
  return NULL;
}

/* ---- argument decoding -------------------------------------------------------------- */
static int slotno(const char* a) {
  if (a[0] isnt '%') { harness_bug("slot expected"); }
  int n = atoi(a + 1);
  if (n < 0 or n >= NSLOT) { harness_bug("slot out of range"); }
  return n;
}
static var arg(const char* a) {
  if (a[0] is '%') { return S[slotno(a)]; }
  if (a[0] is 'i' and a[1] is ':') { struct Int v = { strtoll(a + 2, NULL, 10) }; return mk_stack(Int, &v, sizeof v); }
  if (a[0] is 'f' and a[1] is ':') {
    uint64_t bits = strtoull(a + 2, NULL, 16); struct Float v; memcpy(&v.val, &bits, 8);
    return mk_stack(Float, &v, sizeof v);
  }
  if (a[0] is 's' and a[1] is ':') { struct String v = { (char*)keep(unhex(a + 2, NULL)) }; return mk_stack(String, &v, sizeof v); }
  if (a[0] is 'b' and a[1] is ':') {
    struct Blob v; memset(&v, 0, sizeof v); size_t n; unsigned char* d = keep(unhex(a + 2, &n));
    memcpy(v.b, d, n < 16 ? n : 16); return mk_stack(Blob, &v, sizeof v);
  }
  if (a[0] is 'c' and a[1] is ':') {
    struct Tri v; memset(&v, 0, sizeof v); size_t n; unsigned char* d = keep(unhex(a + 2, &n));
    memcpy(v.b, d, n < 3 ? n : 3); return mk_stack(Tri, &v, sizeof v);
  }
  if (a[0] is 'b' and a[1] is '3' and a[2] is ':') {
    struct Blob3 v; memset(&v, 0, sizeof v); size_t n; unsigned char* d = keep(unhex(a + 3, &n));
    memcpy(v.b, d, n < 3 ? n : 3); return mk_stack(Blob3, &v, sizeof v);
  }
  if (a[0] is 'b' and a[1] is '2' and a[2] is '0' and a[3] is ':') {
    struct Blob20 v; memset(&v, 0, sizeof v); size_t n; unsigned char* d = keep(unhex(a + 4, &n));
    memcpy(v.b, d, n < 20 ? n : 20); return mk_stack(Blob20, &v, sizeof v);
  }
  if (a[0] is 'b' and a[1] is '7' and a[2] is '5' and a[3] is ':') {
    struct Blob75 v; memset(&v, 0, sizeof v); size_t n; unsigned char* d = keep(unhex(a + 4, &n));
    memcpy(v.b, d, n < 75 ? n : 75); return mk_stack(Blob75, &v, sizeof v);
  }
  if (a[0] is 'p' and a[1] is ':') { struct Probe v = { 0, strtoll(a + 2, NULL, 10), NULL }; return mk_stack(Probe, &v, sizeof v); }
  if (a[0] is 'r' and a[1] is ':') { struct Ref v = { arg(a + 2) }; return mk_stack(Ref, &v, sizeof v); }
  if (a[0] is 'x' and a[1] is ':') { struct Box v = { arg(a + 2) }; return mk_stack(Box, &v, sizeof v); }   /* x:<arg> : $(Box, arg), e.g. as the value of set(table<K,Box>, k, ...) (C05) */
  if (a[0] is 't' and a[1] is ':') { return type_by_name(a + 2); }
  if (a[0] is 'f' and a[1] is 'n' and a[2] is ':') {
    for (int i = 0; fns[i].name; i++) { if (strcmp(fns[i].name, a + 3) is 0) { return fns[i].obj; } }
    harness_bug("unknown function");
  }
  if (strcmp(a, "null") is 0) { return NULL; }
  if (strcmp(a, "term") is 0) { return Terminal; }
  if (strcmp(a, "_") is 0) { return _; }
  harness_bug("bad argument");
  return NULL;
}
static var arg_tuple(char** w, int n) {
  var* items = (var*)((char*)keep(calloc(1, 16 + (n + 1) * sizeof(var))) + 16);   /* not a block start: see mk_stack */
  for (int i = 0; i < n; i++) { items[i] = arg(w[i]); }
  items[n] = Terminal;
  struct Tuple t = { items };
  return mk_stack(Tuple, &t, sizeof t);
}

/* ---- value printing ----------------------------------------------------------------- */
static FILE* o; static char* obuf; static size_t olen;
static FILE* vf_pending = NULL;

static void repr(var v, int depth);

static size_t walk_bound = 0;     /* set by fwd/bwd ops when the caller supplies a bound */

static void repr_iter(var c, bool pairs, int depth) {
  size_t bound = 4, n = 0;
  if (walk_bound and depth is 0) { bound = walk_bound; }
  else {
    struct Len* l = instance(c, Len);
    if (l and l->len and type_of(c) isnt Zip and type_of(c) isnt Map and type_of(c) isnt Slice) { bound = 2 * len(c) + 4; } else { bound = 100000; }
  }
  bool first = true;
  for (var it = iter_init(c); it isnt Terminal; it = iter_next(c, it)) {
    if (n++ >= bound) { fprintf(o, "%sOVERRUN", first ? "" : ","); return; }
    if (not first) { fputc(',', o); }
    first = false;
    repr(it, depth + 1);
    if (pairs) { fputc(':', o); repr(get(c, it), depth + 1); }
  }
}

static void repr(var v, int depth) {
  if (v is NULL) { fputs("null", o); return; }
  if (v is Terminal) { fputs("term", o); return; }
  if (v is _) { fputs("_", o); return; }
  if (depth > 6) { fputs("DEEP", o); return; }
  var t = type_of(v);
  if (t is Int) { fprintf(o, "i%" PRId64, ((struct Int*)v)->val); }
  else if (t is Float) { uint64_t b; memcpy(&b, v, 8); fprintf(o, "f%016" PRIx64, b); }
  else if (t is String) { fputc('s', o); char* s = ((struct String*)v)->val; if (s) { fputhex(o, s, strlen(s)); } else { fputs("NULLSTR", o); } }
  else if (t is Type) { fprintf(o, "t%s", c_str(v)); }
  else if (t is Blob) { fputc('b', o); fputhex(o, v, 16); }
  else if (t is Blob3) { fputs("b3", o); fputhex(o, v, 3); }
  else if (t is Blob20) { fputs("b20", o); fputhex(o, v, 20); }
  else if (t is Blob75) { fputs("b75", o); fputhex(o, v, 75); }
  else if (t is Tri) { fputc('c', o); fputhex(o, v, 3); }
  else if (t is Probe) { fprintf(o, "p%" PRId64, ((struct Probe*)v)->val); }
  else if (t is Ref) { fputs("r(", o); repr(((struct Ref*)v)->val, depth + 1); fputc(')', o); }
  else if (t is Box) { fputs("x(", o); repr(((struct Box*)v)->val, depth + 1); fputc(')', o); }
  else if (t is Array) { fputs("A[", o); repr_iter(v, false, depth); fputc(']', o); }
  else if (t is List) { fputs("L[", o); repr_iter(v, false, depth); fputc(']', o); }
  else if (t is Tuple) { fputs("U[", o); repr_iter(v, false, depth); fputc(']', o); }
  else if (t is Table) { fputs("H{", o); repr_iter(v, true, depth); fputc('}', o); }
  else if (t is Tree) { fputs("T{", o); repr_iter(v, true, depth); fputc('}', o); }
  else if (t is Range) { struct Range* r = v; fprintf(o, "R(%" PRId64 ",%" PRId64 ",%" PRId64 ")", r->start, r->stop, r->step); }
  else if (t is Slice or t is Zip or t is Filter or t is Map) { fprintf(o, "V%s[", c_str(t)); repr_iter(v, false, depth); fputc(']', o); }
  else { fprintf(o, "?%s", c_str(t)); }
}

static int sgn(int c) { return c < 0 ? -1 : c > 0; }

/* ---- white-box checks through the CELLO_VERIF accessors -------------------------------- */
#ifdef CELLO_VERIF
extern size_t Cello_Verif_Table_Slots(var self);
extern bool Cello_Verif_Table_Slot(var self, size_t i, uint64_t* home, var* key, var* val);
extern var Cello_Verif_Tree_Root(var self);
extern void Cello_Verif_Tree_Node(var self, var node, var* left, var* right, var* parent, bool* red, var* key, var* val);
extern size_t Cello_Verif_Array_Slots(var self);

/* robin-hood invariants (DESIGN.md D.4) */
static void table_check(var t) {
  size_t ns = Cello_Verif_Table_Slots(t), occ = 0, maxd = 0, disp = 0, wrap = 0;
  const char* bad = NULL;
  for (size_t i = 0; i < ns and not bad; i++) {
    uint64_t h, hp; var k, v, kp, vp;
    Cello_Verif_Table_Slot(t, i, &h, &k, &v);
    if (h is 0) { continue; }
    occ++;
    if (h - 1 isnt hash(k) % ns) { bad = "stored-home-mismatch"; break; }
    if (type_of(k) isnt key_type(t) or type_of(v) isnt val_type(t)) { bad = "slot-type"; break; }
    size_t d = (i + ns - (size_t)(h - 1)) % ns;
    if (i < (size_t)(h - 1)) { wrap++; }
    if (d > maxd) { maxd = d; }
    if (d > 0) {
      disp++;
      size_t p = (i + ns - 1) % ns;
      Cello_Verif_Table_Slot(t, p, &hp, &kp, &vp);
      if (hp is 0) { bad = "gap-in-probe-chain"; break; }
      size_t dp = (p + ns - (size_t)(hp - 1)) % ns;
      if (dp + 1 < d) { bad = "probe-distance-order"; break; }
    }
    if (ns <= 600) {
      for (size_t j = 0; j < i; j++) {
        Cello_Verif_Table_Slot(t, j, &hp, &kp, &vp);
        if (hp isnt 0 and eq(kp, k)) { bad = "duplicate-key"; break; }
      }
    }
  }
  if (not bad and occ isnt len(t)) { bad = "occupied-ne-len"; }
  if (not bad and ns > 0 and occ >= ns) { bad = "no-empty-slot"; }
  fprintf(o, "nslots=%zu occ=%zu maxd=%zu disp=%zu wrap=%zu bad=%s", ns, occ, maxd, disp, wrap, bad ? bad : "-");
}

static var rb_t; static const char* rb_bad; static size_t rb_count; static int rb_orient; static int rb_maxh;
static int rb_walk(var node, var parent, var lo, var hi, int depth) {
  /* returns black height; lo/hi are keys bounding this subtree in iteration orientation */
  if (node is NULL) { return 1; }
  if (depth > 200) { rb_bad = "too-deep-or-cyclic"; return 0; }
  if (depth > rb_maxh) { rb_maxh = depth; }
  var l, r, p, k, v; bool red;
  Cello_Verif_Tree_Node(rb_t, node, &l, &r, &p, &red, &k, &v);
  rb_count++;
  if (p isnt parent) { rb_bad = "parent-link"; return 0; }
  if (type_of(k) isnt key_type(rb_t) or type_of(v) isnt val_type(rb_t)) { rb_bad = "node-type"; return 0; }
  if (lo and sgn(cmp(lo, k)) isnt rb_orient) { rb_bad = "bst-order"; return 0; }
  if (hi and sgn(cmp(k, hi)) isnt rb_orient) { rb_bad = "bst-order"; return 0; }
  if (red) {
    var l2, r2, p2, k2, v2; bool red2;
    if (l) { Cello_Verif_Tree_Node(rb_t, l, &l2, &r2, &p2, &red2, &k2, &v2); if (red2) { rb_bad = "red-red"; return 0; } }
    if (r) { Cello_Verif_Tree_Node(rb_t, r, &l2, &r2, &p2, &red2, &k2, &v2); if (red2) { rb_bad = "red-red"; return 0; } }
  }
  int bl = rb_walk(l, node, lo, k, depth + 1); if (rb_bad) { return 0; }
  int br = rb_walk(r, node, k, hi, depth + 1); if (rb_bad) { return 0; }
  if (bl isnt br) { rb_bad = "black-height"; return 0; }
  return bl + (red ? 0 : 1);
}
static void tree_check(var t) {
  rb_t = t; rb_bad = NULL; rb_count = 0; rb_maxh = 0; rb_orient = -1;
  var root = Cello_Verif_Tree_Root(t);
  int bh = 0;
  if (root) {
    var l, r, p, k, v; bool red;
    Cello_Verif_Tree_Node(t, root, &l, &r, &p, &red, &k, &v);
    if (red) { rb_bad = "root-red"; }
    /* orientation: which side holds the smaller keys (either is fine, must be uniform) */
    var c = l ? l : r;
    if (c) {
      var l2, r2, p2, k2, v2; bool red2;
      Cello_Verif_Tree_Node(t, c, &l2, &r2, &p2, &red2, &k2, &v2);
      int s = sgn(cmp(k2, k));
      rb_orient = l ? s : -s;
      if (rb_orient is 0) { rb_bad = "equal-keys"; }
    }
    if (not rb_bad) { bh = rb_walk(root, NULL, NULL, NULL, 1); }
  }
  if (not rb_bad and rb_count isnt len(t)) { rb_bad = "count-ne-len"; }
  /* height <= 2*log2(n+1) */
  if (not rb_bad) { size_t n = rb_count + 1; int lg = 0; while (((size_t)1 << lg) < n) { lg++; } if (rb_maxh > 2 * lg) { rb_bad = "too-high"; } }
  fprintf(o, "n=%zu height=%d bh=%d orient=%d bad=%s", rb_count, rb_maxh, bh, rb_orient, rb_bad ? rb_bad : "-");
}
/* number of children of the node holding key k (-1 if absent) */
static int tree_children(var t, var key) {
  var node = Cello_Verif_Tree_Root(t);
  int guard = 0;
  while (node and guard++ < 300) {
    var l, r, p, k, v; bool red;
    Cello_Verif_Tree_Node(t, node, &l, &r, &p, &red, &k, &v);
    if (eq(k, key)) { return (l ? 1 : 0) + (r ? 1 : 0); }
    /* try both directions by orientation-free search: compare and follow the library's own convention */
    int c = cmp(k, key);
    var l2, r2, p2, k2, v2; bool red2;
    /* decide side: if left exists compare its key with node key to learn orientation */
    int orient = 0;
    if (l) { Cello_Verif_Tree_Node(t, l, &l2, &r2, &p2, &red2, &k2, &v2); orient = sgn(cmp(k2, k)); }
    else if (r) { Cello_Verif_Tree_Node(t, r, &l2, &r2, &p2, &red2, &k2, &v2); orient = -sgn(cmp(k2, k)); }
    else { return -1; }
    /* orient = sign of (left key vs node key); key belongs left iff sign(key vs node) == orient */
    node = (sgn(-c) is orient) ? l : r;
  }
  return -1;
}
#endif

/* ---- run-time types (C19): new(Type, name, size), created once per process and never freed, so that
** objects of such a type that are still garbage at the end of a case can be swept safely later ---- */
static struct { char* name; size_t size; var t; } rtypes[64]; static int nrtypes = 0;
static var rtype_get(const char* name, size_t sz) {
  for (int i = 0; i < nrtypes; i++) { if (rtypes[i].size is sz and strcmp(rtypes[i].name, name) is 0) { return rtypes[i].t; } }
  if (nrtypes is 64) { harness_bug("too many run-time types"); }
  char* nm = strdup(name);
  var t = new_raw(Type, $S(nm), $I((int64_t)sz));
  rtypes[nrtypes].name = nm; rtypes[nrtypes].size = sz; rtypes[nrtypes].t = t; nrtypes++;
  return t;
}
/* the size(type_of(x)) bytes of x as hex */
static void peek_obj(var x) { fputhex(o, x, size(type_of(x))); }

/* ---- ops ---------------------------------------------------------------------------- */

static void do_op(char** w, int n) {
  const char* op = w[0];
  #define OP(s) (strcmp(op, s) is 0)
  if (OP("new")) {                       /* new d cls T args... */
    int d = slotno(w[1]); var t = arg(w[3]); var args = arg_tuple(w + 4, n - 4); var r;
    if (w[2][0] is 'h') { r = new_with(t, args); }
    else if (w[2][0] is 'r' and w[2][1] is 'a') { r = new_raw_with(t, args); }
    else if (w[2][0] is 'r') { r = new_root_with(t, args); }
    else if (w[2][0] is 's') {            /* stack-class object, constructed in place */
      char* buf = keep(calloc(1, 16 + sizeof(struct Header) + size(t) + 8));
      r = construct_with(header_init(buf + 16, t, AllocStack), args);
    } else { harness_bug("bad class"); r = NULL; }
    S[d] = r; fputs("new", o);
  }
  else if (OP("tmp")) { S[slotno(w[1])] = arg(w[2]); fputs("tmp", o); }  /* stack temp into a slot */
  else if (OP("push")) { push(arg(w[1]), arg(w[2])); }
  else if (OP("pop")) { pop(arg(w[1])); }
  else if (OP("push_at")) { push_at(arg(w[1]), arg(w[2]), arg(w[3])); }
  else if (OP("pop_at")) { pop_at(arg(w[1]), arg(w[2])); }
  else if (OP("set")) { set(arg(w[1]), arg(w[2]), arg(w[3])); }
  else if (OP("get")) {                   /* get c K [d] */
    var r = get(arg(w[1]), arg(w[2]));
    if (n > 3) { S[slotno(w[3])] = r; }
    repr(r, 0);
  }
  else if (OP("findkey")) {               /* findkey c K d : pointer to the element of c equal to K */
    var c = arg(w[1]), k = arg(w[2]); var found = NULL; size_t guard = 0;
    for (var it = iter_init(c); it isnt Terminal and guard++ < 100000; it = iter_next(c, it)) {
      if (eq(it, k)) { found = it; break; }
    }
    S[slotno(w[3])] = found; fputs(found ? "found" : "absent", o);
  }
  else if (OP("mems")) { var c = arg(w[1]); for (int i = 2; i < n; i++) { fputc(mem(c, arg(w[i])) ? '1' : '0', o); } }
  else if (OP("getsk")) {                 /* get for each key that mem reports present, '!' otherwise */
    var c = arg(w[1]);
    for (int i = 2; i < n; i++) {
      if (i > 2) { fputc(',', o); }
      var k = arg(w[i]);
      if (mem(c, k)) { repr(get(c, k), 0); } else { fputc('!', o); }
    }
  }
  else if (OP("mem")) { fprintf(o, "%d", (int)mem(arg(w[1]), arg(w[2]))); }
  else if (OP("rem")) { rem(arg(w[1]), arg(w[2])); }
  else if (OP("concat")) { concat(arg(w[1]), arg(w[2])); }
  else if (OP("append")) { append(arg(w[1]), arg(w[2])); }
  else if (OP("resize")) { resize(arg(w[1]), (size_t)strtoull(w[2], NULL, 10)); }
  else if (OP("sort")) { sort(arg(w[1])); }
  else if (OP("sortby")) {               /* sortby c lt|gt|le|ge */
    bool strict = w[2][1] is 't';
    sort_by(arg(w[1]), w[2][0] is 'g' ? (strict ? cmp_gt : cmp_ge) : (strict ? cmp_lt : cmp_le));
  }
  else if (OP("assign")) { var r = assign(arg(w[1]), arg(w[2])); repr(r, 0); }
  else if (OP("copy")) { var r = copy(arg(w[2])); S[slotno(w[1])] = r; repr(r, 0); }
  else if (OP("swap")) { swap(arg(w[1]), arg(w[2])); }
  else if (OP("del")) { int d = slotno(w[1]); var x = S[d]; S[d] = NULL; del(x); }
  else if (OP("delraw")) { int d = slotno(w[1]); var x = S[d]; S[d] = NULL; del_raw(x); }
  else if (OP("delroot")) { int d = slotno(w[1]); var x = S[d]; S[d] = NULL; del_root(x); }
  else if (OP("delkeep")) { del(arg(w[1])); }          /* del without forgetting the pointer */
  else if (OP("delrawkeep")) { del_raw(arg(w[1])); }
  else if (OP("delrootkeep")) { del_root(arg(w[1])); }
  else if (OP("deallocraw")) { dealloc_raw(arg(w[1])); }
  else if (OP("stup")) { S[slotno(w[1])] = arg_tuple(w + 2, n - 2); fputs("stup", o); }   /* stack-class Tuple, like tuple(...) */
  else if (OP("dealloc")) { dealloc(arg(w[1])); }
  else if (OP("destruct")) { destruct(arg(w[1])); }
  else if (OP("zero")) { S[slotno(w[1])] = NULL; }
  else if (OP("len")) { fprintf(o, "%zu", len(arg(w[1]))); }
  else if (OP("empty")) { fprintf(o, "%d", (int)empty(arg(w[1]))); }
  else if (OP("cmp")) {
    var a = arg(w[1]), b = arg(w[2]);
    int c = cmp(a, b);
    fprintf(o, "c=%d p=%d%d%d%d%d%d", sgn(c), (int)eq(a,b), (int)neq(a,b), (int)lt(a,b), (int)gt(a,b), (int)le(a,b), (int)ge(a,b));
  }
  else if (OP("eq")) { fprintf(o, "%d", (int)eq(arg(w[1]), arg(w[2]))); }
  else if (OP("hash")) { fprintf(o, "%016" PRIx64, hash(arg(w[1]))); }
  else if (OP("hash_data")) {            /* hash_data hex offset : bytes placed at a chosen alignment, at the very end of their
                                            allocation (an over-read hits the ASan redzone) and, in a second copy, followed by 0xA5 */
    size_t nb; unsigned char* d = keep(unhex(w[1], &nb)); int off = atoi(w[2]);
    unsigned char* raw = keep(malloc(nb + (size_t)off + 1));
    unsigned char* p = raw + off;                 /* malloc is 16-aligned: p has alignment offset `off` */
    memcpy(p, d, nb);
    uint64_t h1 = hash_data(p, nb);
    unsigned char* raw2 = keep(malloc(nb + (size_t)off + 32));
    memset(raw2, 0xA5, nb + (size_t)off + 32);
    memcpy(raw2 + off, d, nb);
    uint64_t h2 = hash_data(raw2 + off, nb);
    if (h1 isnt h2) { fprintf(o, "DIFFERENT-FOR-SAME-BYTES %016" PRIx64 " %016" PRIx64, h1, h2); }
    else { fprintf(o, "%016" PRIx64, h1); }
  }
  else if (OP("show")) {                  /* show A [pos prefixhex] */
    var out = new(String, $S(""));
    int pos = 0;
    if (n > 3) { assign(out, arg(w[3])); pos = atoi(w[2]); }
    int r = show_to(arg(w[1]), out, pos);
    fprintf(o, "ret=%d s=", r); fputhex(o, c_str(out), strlen(c_str(out)));
    del(out);
  }
  else if (OP("print")) {                 /* print %d pos fmthex args... : print_to(S[d], pos, fmt, args) */
    var out = arg(w[1]); int pos = atoi(w[2]); char* fmt = (char*)keep(unhex(w[3], NULL));
    int r = print_to_with(out, pos, fmt, arg_tuple(w + 4, n - 4));
    fprintf(o, "ret=%d", r);
    if (type_of(out) is String) { fputs(" s=", o); fputhex(o, c_str(out), strlen(c_str(out))); }
  }
  else if (OP("printb")) {                /* like print, but the format text lives in ONE buffer that every printb reuses
                                          ** (a caller that builds its formats in a scratch buffer) */
    static char fmtbuf[4096];
    var out = arg(w[1]); int pos = atoi(w[2]); size_t fl = 0; char* f0 = (char*)keep(unhex(w[3], &fl));
    if (fl >= sizeof fmtbuf) { harness_bug("printb: format too long"); }
    memcpy(fmtbuf, f0, fl); fmtbuf[fl] = 0;
    int r = print_to_with(out, pos, fmtbuf, arg_tuple(w + 4, n - 4));
    fprintf(o, "ret=%d", r);
    if (type_of(out) is String) { fputs(" s=", o); fputhex(o, c_str(out), strlen(c_str(out))); }
  }
  else if (OP("look")) {                  /* look %dst A pos */
    var d = arg(w[1]); int r = look_from(d, arg(w[2]), atoi(w[3]));
    fprintf(o, "ret=%d v=", r); repr(d, 0);
  }
  else if (OP("scan")) {                  /* scan A pos fmthex dst... */
    char* fmt = (char*)keep(unhex(w[3], NULL));
    int r = scan_from_with(arg(w[1]), atoi(w[2]), fmt, arg_tuple(w + 4, n - 4));
    fprintf(o, "ret=%d v=", r);
    for (int i = 4; i < n; i++) { if (i > 4) { fputc(',', o); } repr(arg(w[i]), 0); }
  }
  else if (OP("cprintf")) {               /* cprintf spechex lenmod conv A : libc reference for one conversion */
    char* spec = (char*)keep(unhex(w[1], NULL)); const char* lm = w[2][0] is '-' ? "" : w[2]; char cv = w[3][0];
    var a = arg(w[4]); char* buf = keep(malloc(8192)); int r = -1;
    if (strchr("di", cv)) {
      int64_t v = c_int(a);
      if (lm[0] is 0) { r = snprintf(buf, 8192, spec, (int)v); }
      else if (strcmp(lm, "hh") is 0) { r = snprintf(buf, 8192, spec, (int)(signed char)v); }
      else if (strcmp(lm, "h") is 0) { r = snprintf(buf, 8192, spec, (int)(short)v); }
      else if (strcmp(lm, "l") is 0) { r = snprintf(buf, 8192, spec, (long)v); }
      else if (strcmp(lm, "ll") is 0) { r = snprintf(buf, 8192, spec, (long long)v); }
      else if (strcmp(lm, "j") is 0) { r = snprintf(buf, 8192, spec, (intmax_t)v); }
      else if (strcmp(lm, "z") is 0) { r = snprintf(buf, 8192, spec, (ssize_t)v); }
      else if (strcmp(lm, "t") is 0) { r = snprintf(buf, 8192, spec, (ptrdiff_t)v); }
    } else if (strchr("uoxX", cv)) {
      int64_t v = c_int(a);
      if (lm[0] is 0) { r = snprintf(buf, 8192, spec, (unsigned)v); }
      else if (strcmp(lm, "hh") is 0) { r = snprintf(buf, 8192, spec, (unsigned)(unsigned char)v); }
      else if (strcmp(lm, "h") is 0) { r = snprintf(buf, 8192, spec, (unsigned)(unsigned short)v); }
      else if (strcmp(lm, "l") is 0) { r = snprintf(buf, 8192, spec, (unsigned long)v); }
      else if (strcmp(lm, "ll") is 0) { r = snprintf(buf, 8192, spec, (unsigned long long)v); }
      else if (strcmp(lm, "j") is 0) { r = snprintf(buf, 8192, spec, (uintmax_t)v); }
      else if (strcmp(lm, "z") is 0) { r = snprintf(buf, 8192, spec, (size_t)v); }
      else if (strcmp(lm, "t") is 0) { r = snprintf(buf, 8192, spec, (ptrdiff_t)v); }
    } else if (strchr("fFeEgGaA", cv)) { r = snprintf(buf, 8192, spec, c_float(a)); }
    else if (cv is 'c') { r = snprintf(buf, 8192, spec, (int)c_int(a)); }
    else if (cv is 's') { r = snprintf(buf, 8192, spec, c_str(a)); }
    else if (cv is 'p') { r = snprintf(buf, 8192, spec, a); }
    if (r < 0 or r >= 8192) { harness_bug("cprintf"); }
    fputhex(o, buf, (size_t)r);
  }
  else if (OP("fprint")) {                /* fprint pos fmthex args... : print_to a File sink, read the file back */
    if (vf_pending) { fclose(vf_pending); vf_pending = NULL; }
    FILE* fp = tmpfile(); if (not fp) { harness_bug("tmpfile"); }
    struct File fv = { fp }; var f = mk_stack(File, &fv, sizeof fv);
    int pos = atoi(w[1]); char* fmt = (char*)keep(unhex(w[2], NULL));
    int r = 0;
    vf_pending = fp;     /* closed by the next file op if an exception unwinds past us */
    r = print_to_with(f, pos, fmt, arg_tuple(w + 3, n - 3));
    vf_pending = NULL;
    fflush(fp); long sz = ftell(fp); rewind(fp);
    char* data = keep(malloc((size_t)sz + 1)); size_t got = fread(data, 1, (size_t)sz, fp); fclose(fp);
    fprintf(o, "ret=%d s=", r); fputhex(o, data, got);
  }
  else if (OP("flook")) {                 /* flook %dst texthex : look_from a File holding text; reports consumed position */
    size_t tn; unsigned char* text = keep(unhex(w[2], &tn));
    if (vf_pending) { fclose(vf_pending); vf_pending = NULL; }
    FILE* fp = tmpfile(); if (not fp) { harness_bug("tmpfile"); }
    fwrite(text, 1, tn, fp); rewind(fp);
    struct File fv = { fp }; var f = mk_stack(File, &fv, sizeof fv);
    var d = arg(w[1]);
    vf_pending = fp;
    int r = look_from(d, f, 0);
    vf_pending = NULL;
    long at = ftell(fp); fclose(fp);
    fprintf(o, "ret=%d at=%ld v=", r, at); repr(d, 0);
  }
  else if (OP("fscan")) {                 /* fscan texthex fmthex dst... */
    size_t tn; unsigned char* text = keep(unhex(w[1], &tn));
    char* fmt = (char*)keep(unhex(w[2], NULL));
    if (vf_pending) { fclose(vf_pending); vf_pending = NULL; }
    FILE* fp = tmpfile(); if (not fp) { harness_bug("tmpfile"); }
    fwrite(text, 1, tn, fp); rewind(fp);
    struct File fv = { fp }; var f = mk_stack(File, &fv, sizeof fv);
    vf_pending = fp;
    int r = scan_from_with(f, 0, fmt, arg_tuple(w + 3, n - 3));
    vf_pending = NULL;
    long at = ftell(fp); fclose(fp);
    fprintf(o, "ret=%d at=%ld v=", r, at);
    for (int i = 3; i < n; i++) { if (i > 3) { fputc(',', o); } repr(arg(w[i]), 0); }
  }
  else if (OP("flookp")) {                /* flookp %dst texthex pos off : like flook, but the stream stands at offset off and pos is passed on */
    size_t tn; unsigned char* text = keep(unhex(w[2], &tn)); int pos = atoi(w[3]); long off = atol(w[4]);
    if (vf_pending) { fclose(vf_pending); vf_pending = NULL; }
    FILE* fp = tmpfile(); if (not fp) { harness_bug("tmpfile"); }
    fwrite(text, 1, tn, fp); fflush(fp); fseek(fp, off, SEEK_SET);
    struct File fv = { fp }; var f = mk_stack(File, &fv, sizeof fv);
    var d = arg(w[1]);
    vf_pending = fp;
    int r = look_from(d, f, pos);
    vf_pending = NULL;
    long at = ftell(fp); fclose(fp);
    fprintf(o, "ret=%d at=%ld v=", r, at); repr(d, 0);
  }
  else if (OP("fscanp")) {                /* fscanp pos off texthex fmthex dst... : like fscan, stream at offset off, pos passed on */
    int pos = atoi(w[1]); long off = atol(w[2]);
    size_t tn; unsigned char* text = keep(unhex(w[3], &tn));
    char* fmt = (char*)keep(unhex(w[4], NULL));
    if (vf_pending) { fclose(vf_pending); vf_pending = NULL; }
    FILE* fp = tmpfile(); if (not fp) { harness_bug("tmpfile"); }
    fwrite(text, 1, tn, fp); fflush(fp); fseek(fp, off, SEEK_SET);
    struct File fv = { fp }; var f = mk_stack(File, &fv, sizeof fv);
    vf_pending = fp;
    int r = scan_from_with(f, pos, fmt, arg_tuple(w + 5, n - 5));
    vf_pending = NULL;
    long at = ftell(fp); fclose(fp);
    fprintf(o, "ret=%d at=%ld v=", r, at);
    for (int i = 5; i < n; i++) { if (i > 5) { fputc(',', o); } repr(arg(w[i]), 0); }
  }
  else if (OP("oprint")) {                /* oprint p|n fmthex args... | oprint s A : print_with / println_with / show on the
                                             process' own stdout; the descriptor is redirected into a temporary file meanwhile */
    char mode = w[1][0];
    char* fmt = mode is 's' ? NULL : (char*)keep(unhex(w[2], NULL));
    var a = mode is 's' ? arg(w[2]) : arg_tuple(w + 3, n - 3);
    FILE* cap = tmpfile(); if (not cap) { harness_bug("tmpfile"); }
    fflush(stdout);
    int saved = dup(1); if (saved < 0) { harness_bug("dup"); }
    dup2(fileno(cap), 1);
    volatile int r = -1; var volatile inner = NULL;
    try { r = mode is 'p' ? print_with(fmt, a) : mode is 'n' ? println_with(fmt, a) : show(a); } catch (e) { inner = e; }
    fflush(stdout);
    dup2(saved, 1); close(saved);
    fseek(cap, 0, SEEK_END); long sz = ftell(cap); rewind(cap);
    char* data = keep(malloc((size_t)sz + 1)); size_t got = fread(data, 1, (size_t)sz, cap); fclose(cap);
    if (inner) { fprintf(o, "raised %s s=", c_str(inner)); } else { fprintf(o, "ret=%d s=", r); }
    fputhex(o, data, got);
  }
  else if (OP("cstr")) { char* s = c_str(arg(w[1])); fputhex(o, s, strlen(s)); }
  else if (OP("cint")) { fprintf(o, "%" PRId64, c_int(arg(w[1]))); }
  else if (OP("cfloat")) { double d = c_float(arg(w[1])); uint64_t b; memcpy(&b, &d, 8); fprintf(o, "%016" PRIx64, b); }
  else if (OP("typeof")) {
    var a = arg(w[1]);
#if CELLO_ALLOC_CHECK == 1
    fprintf(o, "%s alloc=%d", c_str(type_of(a)), (int)(intptr_t)header(a)->alloc);
#else
    fprintf(o, "%s alloc=na", c_str(type_of(a)));
#endif
  }
  else if (OP("repr")) { repr(arg(w[1]), 0); }
  else if (OP("iter")) {                  /* iter c init|last|next|prev [%cur] d */
    var c = arg(w[1]); var r;
    if (w[2][0] is 'i') { r = iter_init(c); S[slotno(w[3])] = r; }
    else if (w[2][0] is 'l') { r = iter_last(c); S[slotno(w[3])] = r; }
    else if (w[2][0] is 'n') { r = iter_next(c, arg(w[3])); S[slotno(w[4])] = r; }
    else { r = iter_prev(c, arg(w[3])); S[slotno(w[4])] = r; }
    repr(r, 0);
  }
  else if (OP("itype")) { fprintf(o, "%s", c_str(iter_type(arg(w[1])))); }
  else if (OP("ktype")) { fprintf(o, "%s", c_str(key_type(arg(w[1])))); }
  else if (OP("vtype")) { fprintf(o, "%s", c_str(val_type(arg(w[1])))); }
  else if (OP("deref")) { var r = deref(arg(w[1])); if (n > 2) { S[slotno(w[2])] = r; } repr(r, 0); }
  else if (OP("ref")) { ref(arg(w[1]), arg(w[2])); }
  else if (OP("eqptr")) { fprintf(o, "%d", (int)(arg(w[1]) is arg(w[2]))); }
  else if (OP("stk")) {                   /* stk d kind args... : the stack-macro forms range()/slice()/zip()/enumerate()/filter()/map() */
    int d = slotno(w[1]); const char* k = w[2]; var r = NULL;
    struct Int zero = { 0 };
    if (strcmp(k, "range") is 0) {
      struct Range rv = { mk_stack(Int, &zero, sizeof zero), 0, 0, 0 };
      r = range_stack(mk_stack(Range, &rv, sizeof rv), arg_tuple(w + 3, n - 3));
    } else if (strcmp(k, "slice") is 0) {
      struct Range rv = { mk_stack(Int, &zero, sizeof zero), 0, 0, 0 };
      struct Slice sv = { NULL, mk_stack(Range, &rv, sizeof rv) };
      r = slice_stack(mk_stack(Slice, &sv, sizeof sv), arg_tuple(w + 3, n - 3));
    } else if (strcmp(k, "zip") is 0 or strcmp(k, "enum") is 0) {
      var iters;
      if (k[0] is 'e') {
        struct Range rv = { mk_stack(Int, &zero, sizeof zero), 0, 0, 0 };
        var rg = range_stack(mk_stack(Range, &rv, sizeof rv), arg_tuple(w + 3, 0));
        var* it = keep(calloc(3, sizeof(var))); it[0] = rg; it[1] = arg(w[3]); it[2] = Terminal;
        struct Tuple tv = { it }; iters = mk_stack(Tuple, &tv, sizeof tv);
      } else { iters = arg_tuple(w + 3, n - 3); }
      size_t ni = len(iters);
      var* vals = keep(calloc(ni + 1, sizeof(var)));
      struct Tuple vv = { vals };
      struct Zip zv = { iters, mk_stack(Tuple, &vv, sizeof vv) };
      r = zip_stack(mk_stack(Zip, &zv, sizeof zv));
      if (k[0] is 'e') { r = enumerate_stack(r); }
    } else if (strcmp(k, "filter") is 0) {
      struct Filter fv = { arg(w[3]), arg(w[4]) }; r = mk_stack(Filter, &fv, sizeof fv);
    } else if (strcmp(k, "map") is 0) {
      struct Map mv = { arg(w[3]), NULL, arg(w[4]) }; r = mk_stack(Map, &mv, sizeof mv);
    } else { harness_bug("stk kind"); }
    S[d] = r; fputs("stk", o);
  }
  else if (OP("getsp")) {                 /* get(i) for i in [0, len) */
    var c = arg(w[1]); int64_t l = (int64_t)len(c);
    for (int64_t i = 0; i < l; i++) { if (i > 0) { fputc(',', o); } repr(get(c, $I(i)), 1); }
  }
  else if (OP("gets")) {                  /* get(i) for i in [-len, len) */
    var c = arg(w[1]); int64_t l = (int64_t)len(c);
    for (int64_t i = -l; i < l; i++) { if (i > -l) { fputc(',', o); } repr(get(c, $I(i)), 0); }
  }
  else if (OP("fwd")) { walk_bound = n > 2 ? (size_t)atol(w[2]) : 0; fputc('[', o); repr_iter(arg(w[1]), false, 0); fputc(']', o); walk_bound = 0; }
  else if (OP("fwdkv")) { fputc('{', o); repr_iter(arg(w[1]), true, 0); fputc('}', o); }
  else if (OP("bwd")) {
    var c = arg(w[1]); size_t bound = 100000, k = 0; bool first = true;
    if (n > 2) { bound = (size_t)atol(w[2]); }
    else {
      struct Len* l = instance(c, Len);
      if (l and l->len and type_of(c) isnt Zip and type_of(c) isnt Map and type_of(c) isnt Slice) { bound = 2 * len(c) + 4; }
    }
    fputc('[', o);
    for (var it = iter_last(c); it isnt Terminal; it = iter_prev(c, it)) {
      if (k++ >= bound) { fprintf(o, "%sOVERRUN", first ? "" : ","); break; }
      if (not first) { fputc(',', o); }
      first = false; repr(it, 1);
    }
    fputc(']', o);
  }
  else if (OP("fwdk") or OP("bwdk")) {     /* fwdk c k : an abandoned walk - the first k items (fewer if it ends), then stop */
    var c = arg(w[1]); size_t k = (size_t)atol(w[2]), j = 0; bool f = op[0] is 'f';
    fputc('[', o);
    for (var it = f ? iter_init(c) : iter_last(c); it isnt Terminal and j < k; ) {
      if (j > 0) { fputc(',', o); }
      repr(it, 1); j++;
      if (j < k) { it = f ? iter_next(c, it) : iter_prev(c, it); }
    }
    fputc(']', o);
  }
  else if (OP("mapcall")) { call_with(arg(w[1]), arg_tuple(w + 2, 0)); }      /* call(map): performs the iteration */
  else if (OP("reclog")) {                /* print and clear the log of the recording functions */
    fputc('[', o);
    for (size_t i = 0; i < rec_n; i++) { fprintf(o, "%si%" PRId64, i ? "," : "", rec_log[i]); }
    fputc(']', o); rec_n = 0;
  }
  else if (OP("live")) { fprintf(o, "live=%" PRId64 " ledger=%s", live_count, inv_msg[0] ? inv_msg : "-"); }
  else if (OP("pmode")) { probe_mode = atoi(w[1]); }
  else if (OP("cmps")) { fprintf(o, "%" PRId64, probe_cmps); probe_cmps = 0; }   /* print and reset the Probe_Cmp call counter */
  else if (OP("collect")) {
#ifndef CELLO_NGC
    extern void GC_Mark(var); extern void GC_Sweep(var);
    GC_Mark(current(GC)); GC_Sweep(current(GC));
#endif
  }
  else if (OP("tchk")) {
#ifdef CELLO_VERIF
    table_check(arg(w[1]));
#else
    fputs("nohook", o);
#endif
  }
  else if (OP("rbchk")) {
#ifdef CELLO_VERIF
    tree_check(arg(w[1]));
#else
    fputs("nohook", o);
#endif
  }
  else if (OP("rbkids")) {
#ifdef CELLO_VERIF
    fprintf(o, "%d", tree_children(arg(w[1]), arg(w[2])));
#else
    fputs("nohook", o);
#endif
  }
  else if (OP("cap")) {
#ifdef CELLO_VERIF
    fprintf(o, "%zu", Cello_Verif_Array_Slots(arg(w[1])));
#else
    fputs("nohook", o);
#endif
  }
  /* -- C19: run-time types, bare allocation, byte-wise access to the size(type) bytes of an object -- */
  else if (OP("rtype")) { S[slotno(w[1])] = rtype_get(w[2], (size_t)strtoull(w[3], NULL, 10)); fputs("rtype", o); }   /* rtype d name size */
  else if (OP("alloc")) {                /* alloc d heap|raw|root T : alloc / alloc_raw / alloc_root (zeroed, not constructed) */
    int d = slotno(w[1]); var t = arg(w[3]); var r;
    if (w[2][0] is 'h') { r = alloc(t); }
    else if (w[2][0] is 'r' and w[2][1] is 'a') { r = alloc_raw(t); }
    else if (w[2][0] is 'r') { r = alloc_root(t); }
    else { harness_bug("bad class"); r = NULL; }
    S[d] = r; fputs("alloc", o);
  }
  else if (OP("deallocroot")) { dealloc_root(arg(w[1])); }
  else if (OP("tsize")) { fprintf(o, "%zu", size(arg(w[1]))); }      /* tsize T */
  else if (OP("fill")) {                 /* fill x hh : write all size(type_of(x)) bytes of x */
    var x = arg(w[1]); memset(x, (int)strtol(w[2], NULL, 16), size(type_of(x)));
  }
  else if (OP("peek")) { peek_obj(arg(w[1])); }
  else if (OP("peeks")) {                /* peeks c [kv] : the bytes of every item (and of get(c, item)) of c, in iteration order */
    var c = arg(w[1]); bool kv = n > 2; size_t k = 0; bool first = true;
    fputc('[', o);
    for (var it = iter_init(c); it isnt Terminal; it = iter_next(c, it)) {
      if (k++ >= 100000) { fputs(",OVERRUN", o); break; }
      if (not first) { fputc(',', o); }
      first = false;
      fprintf(o, "%s/", c_str(type_of(it))); peek_obj(it);
      if (kv) { var v = get(c, it); fprintf(o, ":%s/", c_str(type_of(v))); peek_obj(v); }
    }
    fputc(']', o);
  }
  else { harness_bug("unknown op"); }
  #undef OP
}


int main(int argc, char** argv) {
  var slots[NSLOT];
  memset(slots, 0, sizeof slots);
  S = slots;
  for (int i = 0; i < 64; i++) { mapobj[i] = header_init(calloc(1, sizeof(struct Header) + sizeof(struct Int)), Int, AllocStack); }
  for (int i = 0; fns[i].name; i++) {
    struct Function f = { fns[i].f };
    char* buf = calloc(1, sizeof(struct Header) + sizeof f);
    fns[i].obj = header_init(buf, Function, AllocStack);
    memcpy(fns[i].obj, &f, sizeof f);
  }
  int cases = 0;
  char* w[MAXW];
  while (true) {
    char* line = rd_line();
    if (line is NULL) { break; }
    if (strcmp(line, "end") is 0) {
      /* case over: drop everything; whatever was not deleted is garbage for the collector */
      memset(slots, 0, sizeof slots);
#if defined(CELLO_VERIF) && !defined(CELLO_NGC)
      /* sweep this case's garbage now, while nothing refers to it, so that cases stay independent */
      { extern void Cello_Verif_GC_Collect(var); Cello_Verif_GC_Collect(current(GC)); }
#endif
      arena_free();
      epoch_token = next_token; live_count = 0; inv_msg[0] = 0; probe_mode = 0; rec_n = 0;
      printf("done\n"); fflush(stdout);
      cases++;
      continue;
    }
    if (strcmp(line, "reset") is 0) {
      /* C18: boundary between two sub-programs of one case.  Same clean-up as at the end of a case (slots dropped,
      ** garbage swept from this shallow frame, ledgers reset) so that garbage of one sub-program - which may hold
      ** pointers to objects its program deleted explicitly - is never traced during the next one; the process, the
      ** heap, the collector's registry and the method caches carry over.  Answers one line like any op. */
      memset(slots, 0, sizeof slots);
#if defined(CELLO_VERIF) && !defined(CELLO_NGC)
      { extern void Cello_Verif_GC_Collect(var); Cello_Verif_GC_Collect(current(GC)); }
#endif
      arena_free();
      epoch_token = next_token; live_count = 0; inv_msg[0] = 0; probe_mode = 0; rec_n = 0;
      printf("ok reset\n");
      continue;
    }
    int n = split(line, w, MAXW);
    if (n is 0) { continue; }
    o = open_memstream(&obuf, &olen);
    var volatile exc = NULL;
    try { do_op(w, n); } catch (e) { exc = e; }
    fclose(o);
    int d = exc_depth();
    if (exc) { printf("exc %s", c_str(exc)); } else { printf("ok %s", obuf); }
    if (d isnt 0) { printf(" depth=%d", d); }
    if (inv_msg[0]) { printf(" inv=%s", inv_msg); }
    printf("\n");
    free(obuf); obuf = NULL;
  }
  return 0;
}
