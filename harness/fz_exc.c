/* libFuzzer target for C07: bytes are decoded into a program tree (Seq | Try with a filter of 0..3 kinds | Nest of
 * directly nested try blocks | Throw (plain, long message, literal %%, raised by a library function) | Call | Mark |
 * a hand-written function with two LEXICALLY nested try blocks) which is executed with the REAL try / catch / throw
 * macros inside one outermost catch-all block, twice in a row (state leaking from the first run shows in the second).
 * The oracle is a reference interpreter in this file that propagates a "thrown kind" return value through the same
 * tree and produces the expected event trace (mark id / handler id kind / post id); the two traces must be equal,
 * the object bound in a handler must be the object that was thrown (identity, also when a filter names a different
 * object with the same type name), len(current(Exception)) must be the same before and after every construct and 0
 * around the whole tree, and throw must never return.  Traps on a violation. */
#include "Cello.h"
#include <inttypes.h>
#include <unistd.h>

#undef main

static const uint8_t* D; static size_t N, P;
static unsigned u8(void) { return P < N ? D[P++] : 0; }

static void fail(const char* what, long a, long b) {
  fprintf(stderr, "FZ-VIOLATION %s (%ld, %ld)\n", what, a, b);
  __builtin_trap();
}

enum { NK = 16 };
static var UserExc = CelloEmpty(UserExc);
static var UserExcEOF = CelloEmpty(UserExcEOF);
static var User = CelloEmpty(User);
static var UserExcTwin = CelloEmpty(UserExc);      /* same type name as UserExc, another object */
static var K[NK];
static const char* TNAME[NK] = { "TypeError", "KeyError", "ValueError", "IOError", "UserExc", "UserExcEOF", "User", "UserExc",
                                 "ClassError", "IndexOutOfBoundsError",
                                 "FormatError", "BusyError", "ResourceError", "OutOfMemoryError", "DivisionByZeroError", "SegmentationError" };
static bool same_name(int a, int b) { return strcmp(TNAME[a], TNAME[b]) is 0; }

enum { T_SEQ, T_TRY, T_THROW, T_CALL, T_MARK, T_LEX };
typedef struct Node Node;
struct Node { int kind, id, nf, f[3], nf2, f2[3], k, how, cnt, nkid; Node* kid[5]; };
#define POOL 256
static Node pool[POOL]; static int npool, next_id;

static void dec_filter(int* nf, int* f) {
  *nf = (int)(u8() % 4);
  for (int i = 0; i < *nf; i++) {
    int k = (int)(u8() % NK); bool dup = true;
    while (dup) { dup = false; for (int j = 0; j < i; j++) { if (f[j] is k) { dup = true; k = (k + 1) % NK; } } }   /* a filter is a set */
    f[i] = k;
  }
}

static Node* dec(int depth) {
  Node* n = &pool[npool++];
  memset(n, 0, sizeof *n);
  unsigned op = u8() % 10;
  if (npool > 96 or depth >= 7) { op = op % 2; }
  if (op is 0) { n->kind = T_MARK; n->id = next_id++; }
  else if (op is 1) {
    n->kind = T_THROW; n->k = (int)(u8() % NK); n->how = (int)(u8() % 5); if (n->how is 3 and u8() % 8) { n->how = 2; }   /* the 6000 character message is rare: it dominates the run time */
    if (n->how is 1 and not (n->k is 1 or n->k is 2 or n->k is 8 or n->k is 9)) { n->how = 0; }
  }
  else if (op is 2) { n->kind = T_SEQ; n->nkid = 1 + (int)(u8() % 3); for (int i = 0; i < n->nkid; i++) { n->kid[i] = dec(depth + 1); } }
  else if (op is 3) { n->kind = T_CALL; n->nkid = 1; n->kid[0] = dec(depth + 1); }
  else if (op <= 7) {
    n->kind = T_TRY; n->cnt = op is 7 ? 2 + (int)(u8() % 7) : 1; n->id = next_id; next_id += n->cnt;
    dec_filter(&n->nf, n->f);
    n->nkid = 2; n->kid[0] = dec(depth + 1); n->kid[1] = dec(depth + 1);
  }
  else {
    /* T(id, S[s0, T(id+1, s1, f2, s2), s3], f, s4) with both blocks in one C function */
    n->kind = T_LEX; n->id = next_id; next_id += 2;
    dec_filter(&n->nf, n->f); dec_filter(&n->nf2, n->f2);
    n->nkid = 5; for (int i = 0; i < 5; i++) { n->kid[i] = dec(depth + 2); }
  }
  return n;
}

/* ---- traces ---- */
enum { E_MARK = 1, E_HANDLER, E_POST };
#define TMAX 4096
typedef struct { int ev[TMAX][3]; int n; bool overflow; } Trace;
static Trace want, got;
static void put(Trace* t, int e, int a, int b) {
  if (t->n >= TMAX) { t->overflow = true; return; }
  t->ev[t->n][0] = e; t->ev[t->n][1] = a; t->ev[t->n][2] = b; t->n++;
}

/* ---- reference: returns the kind in flight, -1 for normal completion ---- */
static bool matches(int nf, const int* f, int k) {
  if (nf is 0) { return true; }
  for (int i = 0; i < nf; i++) { if (same_name(f[i], k)) { return true; } }
  return false;
}
static int refx(Node* n);
static int ref_try(int id, int nf, const int* f, int r, Node* handler) {
  /* r: outcome of the body */
  if (r >= 0) {
    if (not matches(nf, f, r)) { return r; }
    put(&want, E_HANDLER, id, r);
    int r2 = refx(handler); if (r2 >= 0) { return r2; }
  }
  put(&want, E_POST, id, 0);
  return -1;
}
static int ref_nest(Node* n, int level) {
  int r = level + 1 < n->cnt ? ref_nest(n, level + 1) : refx(n->kid[0]);
  return ref_try(n->id + level, n->nf, n->f, r, n->kid[1]);
}
static int refx(Node* n) {
  switch (n->kind) {
    case T_MARK: put(&want, E_MARK, n->id, 0); return -1;
    case T_THROW: return n->k;
    case T_CALL: return refx(n->kid[0]);
    case T_SEQ: for (int i = 0; i < n->nkid; i++) { int r = refx(n->kid[i]); if (r >= 0) { return r; } } return -1;
    case T_TRY: return ref_nest(n, 0);
    default: {
      int r = refx(n->kid[0]);
      if (r < 0) { r = ref_try(n->id + 1, n->nf2, n->f2, refx(n->kid[1]), n->kid[2]); }
      if (r < 0) { r = refx(n->kid[3]); }
      return ref_try(n->id, n->nf, n->f, r, n->kid[4]);
    }
  }
}

/* ---- the real thing ---- */
static var last_thrown;
static var g_table, g_array;
static char longmsg[6001];
static int depth_now(void) { return (int)len(current(Exception)); }

static void run(Node* n);

__attribute__((noinline)) static void do_throw(int k, int how) {
  last_thrown = K[k];
  if (how is 1) {
    if (k is 1) { get(g_table, $I(7)); }
    else if (k is 2) { cast($I(1), String); }
    else if (k is 8) { len($I(1)); }
    else { get(g_array, $I(3)); }
    fail("a library call that must raise returned", k, how);
  }
  if (how is 2 or how is 3) {
    size_t l = how is 2 ? 300 : 6000; memset(longmsg, 'm', l); longmsg[l] = 0;
    throw(K[k], "kind %i thrown: %s", $I(k), $S(longmsg));
  } else if (how is 4) { throw(K[k], "kind %i is 100%% thrown, %s%%", $I(k), $S("really")); }
  else { throw(K[k], "kind %i thrown", $I(k)); }
  fail("throw returned", k, how);
}

static void handler_entered(int id, var e) {
  int k = -1;
  for (int i = 0; i < NK; i++) { if (e is K[i]) { k = i; } }
  if (e isnt last_thrown) { fail("the object bound in the handler is not the thrown object", id, k); }
  put(&got, E_HANDLER, id, k);
}

#define SITE_BEGIN int d0 = depth_now();
#define SITE_END(ID) if (depth_now() isnt d0) { fail("depth differs before and after a construct", (ID), depth_now() - d0); } put(&got, E_POST, (ID), 0);

static void enter(Node* n, int level);
static void body(Node* n, int level) { if (level + 1 < n->cnt) { enter(n, level + 1); } else { run(n->kid[0]); } }

__attribute__((noinline)) static void try0(Node* n, int level) {
  SITE_BEGIN
  try { body(n, level); } catch (e) { handler_entered(n->id + level, e); run(n->kid[1]); }
  SITE_END(n->id + level)
}
__attribute__((noinline)) static void try1(Node* n, int level) {
  var f0 = K[n->f[0]]; SITE_BEGIN
  try { body(n, level); } catch (e in f0) { handler_entered(n->id + level, e); run(n->kid[1]); }
  SITE_END(n->id + level)
}
__attribute__((noinline)) static void try2(Node* n, int level) {
  var f0 = K[n->f[0]]; var f1 = K[n->f[1]]; SITE_BEGIN
  try { body(n, level); } catch (e in f0, f1) { handler_entered(n->id + level, e); run(n->kid[1]); }
  SITE_END(n->id + level)
}
__attribute__((noinline)) static void try3(Node* n, int level) {
  var f0 = K[n->f[0]]; var f1 = K[n->f[1]]; var f2 = K[n->f[2]]; SITE_BEGIN
  try { body(n, level); } catch (e in f0, f1, f2) { handler_entered(n->id + level, e); run(n->kid[1]); }
  SITE_END(n->id + level)
}
static void enter(Node* n, int level) {
  switch (n->nf) { case 0: try0(n, level); break; case 1: try1(n, level); break; case 2: try2(n, level); break; default: try3(n, level); }
}

/* a plain throw in a slot happens lexically inside the function that holds the nested blocks */
#define SLOT(I) do { Node* s_ = n->kid[I]; \
    if (s_->kind is T_THROW and s_->how is 0) { last_thrown = K[s_->k]; throw(K[s_->k], "kind %i thrown", $I(s_->k)); fail("throw returned", s_->k, 0); } \
    else { run(s_); } } while (0)

/* the filter arities of the two lexical levels are data: one function per (outer, inner) arity pair would be 16
 * functions; the inner block takes arities 0..3, the outer one 0 or its full list padded with repeats of its last
 * entry being avoided - a filter is a set - by switching over the arity */
#define LEX(NAME, OUTER_CATCH) \
__attribute__((noinline)) static void NAME(Node* n) { \
  var a0 = K[n->f[0]]; var a1 = K[n->f[1]]; var a2 = K[n->f[2]]; var b0 = K[n->f2[0]]; var b1 = K[n->f2[1]]; var b2 = K[n->f2[2]]; \
  (void)a0; (void)a1; (void)a2; (void)b0; (void)b1; (void)b2; \
  SITE_BEGIN \
  try { \
    SLOT(0); \
    int d1 = depth_now(); \
    if (n->nf2 is 0) { try { SLOT(1); } catch (e) { handler_entered(n->id + 1, e); SLOT(2); } } \
    else if (n->nf2 is 1) { try { SLOT(1); } catch (e in b0) { handler_entered(n->id + 1, e); SLOT(2); } } \
    else if (n->nf2 is 2) { try { SLOT(1); } catch (e in b0, b1) { handler_entered(n->id + 1, e); SLOT(2); } } \
    else { try { SLOT(1); } catch (e in b0, b1, b2) { handler_entered(n->id + 1, e); SLOT(2); } } \
    if (depth_now() isnt d1) { fail("depth differs before and after an inner lexical construct", n->id + 1, depth_now() - d1); } \
    put(&got, E_POST, n->id + 1, 0); \
    SLOT(3); \
  } OUTER_CATCH { handler_entered(n->id, e); SLOT(4); } \
  SITE_END(n->id) \
}
LEX(lex0, catch (e))
LEX(lex1, catch (e in a0))
LEX(lex2, catch (e in a0, a1))
LEX(lex3, catch (e in a0, a1, a2))

__attribute__((noinline)) static void call_tree(Node* n) {
  volatile char pad[96]; pad[0] = (char)n->kind; pad[95] = pad[0];
  run(n->kid[0]);
  pad[1] = pad[95];
}

static void run(Node* n) {
  switch (n->kind) {
    case T_MARK: put(&got, E_MARK, n->id, 0); break;
    case T_THROW: do_throw(n->k, n->how); break;
    case T_CALL: call_tree(n); break;
    case T_SEQ: for (int i = 0; i < n->nkid; i++) { run(n->kid[i]); } break;
    case T_TRY: enter(n, 0); break;
    default: switch (n->nf) { case 0: lex0(n); break; case 1: lex1(n); break; case 2: lex2(n); break; default: lex3(n); } break;
  }
}

int LLVMFuzzerInitialize(int* argc, char*** argv) {
  static var bottom = NULL;
  new_raw(GC, $R(&bottom));
  stop(current(GC));
  K[0] = TypeError; K[1] = KeyError; K[2] = ValueError; K[3] = IOError; K[4] = UserExc; K[5] = UserExcEOF; K[6] = User;
  K[7] = UserExcTwin; K[8] = ClassError; K[9] = IndexOutOfBoundsError;
  K[10] = FormatError; K[11] = BusyError; K[12] = ResourceError; K[13] = OutOfMemoryError; K[14] = DivisionByZeroError; K[15] = SegmentationError;
  g_table = new_raw(Table, Int, Int); set(g_table, $I(1), $I(2));
  g_array = new_raw(Array, Int); push(g_array, $I(1));
  return 0;
}

static void dump(const char* name, Trace* t) {
  fprintf(stderr, "%s:", name);
  for (int i = 0; i < t->n and i < 60; i++) { fprintf(stderr, " %s%d/%d", t->ev[i][0] is E_MARK ? "m" : t->ev[i][0] is E_HANDLER ? "h" : "p", t->ev[i][1], t->ev[i][2]); }
  fprintf(stderr, "\n");
}

int LLVMFuzzerTestOneInput(const uint8_t* data, size_t size) {
  D = data; N = size; P = 0; npool = 0; next_id = 1;
  Node* root = dec(0);
  want.n = 0; want.overflow = false;
  int r = refx(root);
  if (r >= 0) { put(&want, E_HANDLER, 0, r); }
  put(&want, E_POST, 0, 0);
  if (want.overflow) { return 0; }
  for (int round = 0; round < 2; round++) {
    got.n = 0; got.overflow = false;
    if (depth_now() isnt 0) { fail("depth is not 0 before the tree", depth_now(), round); }
    try { run(root); } catch (e) { handler_entered(0, e); }
    put(&got, E_POST, 0, 0);
    if (depth_now() isnt 0) { fail("depth is not 0 after the tree", depth_now(), round); }
    bool bad = got.n isnt want.n or got.overflow;
    for (int i = 0; not bad and i < want.n; i++) { bad = memcmp(want.ev[i], got.ev[i], sizeof want.ev[i]) isnt 0; }
    if (bad) {
      if (getenv("FZ_EXPLAIN")) { dump("want", &want); dump("got ", &got); }
      fail("event trace differs from the reference interpreter", got.n, want.n);
    }
  }
  return 0;
}
