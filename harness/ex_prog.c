/* ex_prog: executor for C18's "macros" and "threads" subsystems.
 *
 * ex_vm reaches the library through pre-built argument objects (calloc + header_init); this executor is the other
 * half: small straight-line programs written the way the documentation writes them, i.e. through the macros of
 * Cello.h on the real C stack - $() $I $F $S $R tuple() new() foreach range() slice() reverse() zip() enumerate()
 * filter() map() with try/catch/throw call() print_to() scan_from() method() type_method() implements_method()
 * alloc_stack() construct() - compiled with the flags of the configuration under test (the macros expand in THIS
 * file, so optimisation level, header size (CELLO_NDEBUG) and CELLO_NGC apply to them).  Every routine is a pure
 * function of its integer arguments and prints one line without addresses; lib/vf/props/c18.py holds a reference
 * model for every line.  Only in-contract use: nothing here takes an error path of the library (exceptions are
 * thrown by the program itself and caught by its own try blocks).
 *
 *   tup n v0..v5      tuple() of n Ints: len, foreach, get(0), get(-1), mem, %$ text, concat into an Array
 *   each n k m        nested foreach over range() objects with break / continue, a backwards range
 *   views n a b st sd foreach over slice / reverse / zip (2 and 3 inputs) / enumerate / filter / map of Array and List
 *   exc d k           two nested try blocks, catch filters with two types, throw from a handler, messages
 *   fmt i q w         print_to with a tuple of arguments (%i %f %s %$ %c %x), format_to (C varargs), scan_from
 *   rtobj n sd        a type created at run time (new_root(Type, $S, $I, $(New..), $(Assign..), $(Cmp..), $(Hash..),
 *                     $(Show..), $(C_Int..))): objects in an Array (sorted) and as Table keys, $() objects of that
 *                     type, method()/type_method()/implements_method() on it, every object finalised exactly once
 *   roots n churn     n root objects held only in static memory while garbage is allocated (registry growth, collections)
 *   pool n keep       a type with its own Alloc instance (8-cell pool): new / del of n objects, `keep` of them held a while
 *   regs rounds base  six objects held only in locals (registers at -O1+) while non-inlined helpers allocate garbage
 *   gcl n churn       containers held only in local variables of this routine while `churn` garbage objects are
 *                     allocated (collections happen in the collector builds), then read back
 *   stk a b           stack objects: $I $F $S $R, alloc_stack + assign, construct(alloc_stack(Int)) + destruct,
 *                     $(Tuple, items) / $(Range, ...) filled in by hand, a static user type declared with Cello(...)
 *                     and its $() objects
 *   call a b          call($(Function, f), $I(a), $I(b)), call_with
 *   meth a            method / type_method / implements_method / type_implements_method / instance / implements on
 *                     built-in objects (only lookups that succeed)
 *   lock a            Mutex: with (m in mutex), lock / unlock / trylock
 *   thr n iters       n Threads (documented idiom: new(Thread, $(Function, f)); call(t, mutex, total, ...); join):
 *                     private containers, a Mutex-protected shared Int, thread-local values, current(Thread),
 *                     an exception thrown and caught inside each thread; main's own thread-local value stays
 */
#include "common.h"
#include <sched.h>

static char outb[16384]; static size_t outn;
#define OUT(...) do { if (outn < sizeof outb - 256) { outn += (size_t)snprintf(outb + outn, sizeof outb - outn, __VA_ARGS__); } } while (0)

/* ---- tup ---------------------------------------------------------------------------------------------- */
static void tup_report(var t, long probe) {
  int64_t sum = 0, pos = 1;
  foreach (x in t) { sum += c_int(x) * pos; pos++; }
  OUT("len=%zu sum=%" PRId64, len(t), sum);
  if (len(t) > 0) { OUT(" first=%" PRId64 " last=%" PRId64, c_int(get(t, $I(0))), c_int(get(t, $I(-1)))); }
  OUT(" mem=%d", (int)mem(t, $I(probe)));
  var s = new(String, $S(""));
  print_to(s, 0, "%$", t);
  OUT(" show=%s", c_str(s));
  var a = new(Array, Int);
  concat(a, t);
  push(a, $I(probe));
  int64_t asum = 0;
  foreach (x in a) { asum += c_int(x); }
  OUT(" arr=%zu/%" PRId64, len(a), asum);
  del(a); del(s);
}
static void r_tup(long* v, int nv) {
  long n = v[0];
  /* the work happens inside each case: $() temporaries die at the closing brace of the switch */
  switch (n) {
    case 0: tup_report(tuple(), v[1]); break;
    case 1: tup_report(tuple($I(v[1])), v[1]); break;
    case 2: tup_report(tuple($I(v[1]), $I(v[2])), v[1]); break;
    case 3: tup_report(tuple($I(v[1]), $I(v[2]), $I(v[3])), v[2]); break;
    case 4: tup_report(tuple($I(v[1]), $I(v[2]), $I(v[3]), $I(v[4])), v[5]); break;
    case 5: tup_report(tuple($I(v[1]), $I(v[2]), $I(v[3]), $I(v[4]), $I(v[5])), v[6]); break;
    default: tup_report(tuple($I(v[1]), $I(v[2]), $I(v[3]), $I(v[4]), $I(v[5]), $I(v[6])), v[3]); break;
  }
}

/* ---- each --------------------------------------------------------------------------------------------- */
static void r_each(long* v, int nv) {
  long n = v[0], k = v[1], m = v[2];
  int64_t acc = 0, cnt = 0, acc2 = 0;
  foreach (i in range($I(n))) {
    foreach (j in range($I(1), $I(k), $I(m))) {
      if (c_int(j) > c_int(i) + 3) { break; }
      if ((c_int(i) + c_int(j)) % 3 is 0) { continue; }
      acc += c_int(i) * 100 + c_int(j); cnt++;
    }
  }
  foreach (i in range($I(0), $I(n), $I(-m))) { acc2 = acc2 * 3 + c_int(i); }     /* the interval [0, n) walked downwards */
  OUT("acc=%" PRId64 " cnt=%" PRId64 " back=%" PRId64, acc, cnt, acc2);
}

/* ---- views -------------------------------------------------------------------------------------------- */
static var f_even(var x) { return c_int(x) % 2 is 0 ? x : NULL; }
static var f_dbl(var x) { return new(Int, $I(c_int(x) * 2)); }
static void r_views(long* v, int nv) {
  long n = v[0], a = v[1], b = v[2], st = v[3], sd = v[4];
  long n2 = n > 2 ? n - 2 : 0;
  var arr = new(Array, Int); var lst = new(List, Int);
  for (long i = 0; i < n; i++) { push(arr, $I((i * 7 + sd) % 11 - 3)); }
  for (long i = 0; i < n2; i++) { push(lst, $I(i * i)); }
  OUT("sl="); foreach (x in slice(arr, $I(a), $I(b), $I(st))) { OUT("%" PRId64 ",", c_int(x)); }
  OUT(" s2="); foreach (x in slice(arr, $I(a), $I(b))) { OUT("%" PRId64 ",", c_int(x)); }
  OUT(" s1="); foreach (x in slice(lst, $I(b))) { OUT("%" PRId64 ",", c_int(x)); }
  OUT(" rev="); foreach (x in reverse(arr)) { OUT("%" PRId64 ",", c_int(x)); }
  OUT(" zip="); foreach (p in zip(arr, lst)) { OUT("%" PRId64 ":%" PRId64 ",", c_int(get(p, $I(0))), c_int(get(p, $I(1)))); }
  OUT(" zip3="); foreach (p in zip(lst, arr, range($I(100), $I(200)))) {
    OUT("%" PRId64 ":%" PRId64 ":%" PRId64 ",", c_int(get(p, $I(0))), c_int(get(p, $I(1))), c_int(get(p, $I(2)))); }
  OUT(" en="); foreach (p in enumerate(lst)) { OUT("%" PRId64 ":%" PRId64 ",", c_int(get(p, $I(0))), c_int(get(p, $I(1)))); }
  OUT(" fl="); foreach (x in filter(arr, $(Function, f_even))) { OUT("%" PRId64 ",", c_int(x)); }
  OUT(" mp="); foreach (x in map(arr, $(Function, f_dbl))) { OUT("%" PRId64 ",", c_int(x)); }
  del(arr); del(lst);
}

/* ---- exc ---------------------------------------------------------------------------------------------- */
static char exc_msg1[96], exc_msg2[96];       /* static: written between a setjmp and a longjmp */
/* exception_message() is declared in Cello.h but defined nowhere; the Show text of the current Exception object
 * carries the type and the formatted message after its address: <'Exception' At 0x... KeyError - "key 5"> */
static void exc_text(char* dst, size_t cap) {
  var s = new_raw(String, $S(""));
  show_to(current(Exception), s, 0);
  char* p = strstr(c_str(s), " At ");
  p = p ? strchr(p + 4, ' ') : NULL;
  snprintf(dst, cap, "%s", p ? p + 1 : "?");
  del_raw(s);
}
static void r_exc(long* v, int nv) {
  long d = v[0], k = v[1];
  volatile long trace = 0;
  strcpy(exc_msg1, "-"); strcpy(exc_msg2, "-");
  try {
    trace = trace * 10 + 1;
    try {
      trace = trace * 10 + 2;
      if (k is 1) { throw(KeyError, "key %i", $I(d)); }
      if (k is 2) { throw(TypeError, "type %s %i", $S("x"), $I(d)); }
      if (k is 3) { throw(IOError, "io"); }
      trace = trace * 10 + 3;
    } catch (e in KeyError, IOError) {
      trace = trace * 10 + (e is KeyError ? 4 : 5);
      exc_text(exc_msg1, sizeof exc_msg1);
      if (d % 2) { throw(ValueError, "again %i", $I(d + 1)); }
    }
    trace = trace * 10 + 6;
  } catch (e in ValueError, TypeError) {
    trace = trace * 10 + (e is ValueError ? 7 : 8);
    exc_text(exc_msg2, sizeof exc_msg2);
  }
  OUT("trace=%ld msg=%s|%s depth=%d", (long)trace, exc_msg1, exc_msg2, exc_depth());
}

/* ---- fmt ---------------------------------------------------------------------------------------------- */
static void r_fmt(long* v, int nv) {
  long i = v[0], q = v[1], w = v[2];
  double f = (double)q / 8.0;
  char word[32]; snprintf(word, sizeof word, "w%ldz", w);
  long ch = 65 + ((i % 26) + 26) % 26, ab = i < 0 ? -i : i;
  var s = new(String, $S("<<"));
  int p = print_to(s, 2, "%i|%f|%6.2f|%s|%$|%$|%c|%x", $I(i), $F(f), $F(f), $S(word), $S(word), $I(i), $I(ch), $I(ab));
  OUT("p=%d s=%s", p, c_str(s));
  var s2 = new(String, $S(""));
  int p2 = format_to(s2, 0, "%d:%s:%.3f:%ld", (int)i, word, f, (long)q);
  p2 = format_to(s2, p2, "+%c", (int)ch);
  OUT(" p2=%d s2=%s", p2, c_str(s2));
  var src = new(String, $S(""));
  print_to(src, 0, "%i %f %i", $I(i), $F(f), $I(q));
  var ia = new(Int, $I(0)); var fa = new(Float, $F(0.0)); var ib = new(Int, $I(0));
  int p3 = scan_from(src, 0, "%i %f %i", ia, fa, ib);
  OUT(" p3=%d scan=%" PRId64 ",%.4f,%" PRId64, p3, c_int(ia), c_float(fa), c_int(ib));
  del(s); del(s2); del(src); del(ia); del(fa); del(ib);
}

/* ---- rtobj -------------------------------------------------------------------------------------------- */
struct Pt { int64_t x, y; char* tag; };
static long pt_live = 0, pt_made = 0, pt_bad = 0;
static void Pt_New(var self, var args) {
  struct Pt* p = self;
  if (p->tag isnt NULL) { pt_bad++; }
  p->x = c_int(get(args, $I(0))); p->y = c_int(get(args, $I(1)));
  p->tag = malloc(8); pt_live++; pt_made++;
}
static void Pt_Del(var self) {
  struct Pt* p = self;
  if (p->tag is NULL) { return; }               /* zeroed, never assigned */
  free(p->tag); p->tag = NULL; pt_live--;
}
static void Pt_Assign(var self, var obj) {
  struct Pt* p = self; struct Pt* o = obj;
  if (p->tag is NULL) { p->tag = malloc(8); pt_live++; pt_made++; }
  p->x = o->x; p->y = o->y;
}
static int Pt_Cmp(var self, var obj) {
  struct Pt* p = self; struct Pt* o = obj;
  if (p->x isnt o->x) { return p->x < o->x ? -1 : 1; }
  return p->y < o->y ? -1 : p->y > o->y;
}
static uint64_t Pt_Hash(var self) { struct Pt* p = self; return (uint64_t)(p->x * 31 + p->y); }
static int Pt_Show(var self, var out, int pos) { struct Pt* p = self; return print_to(out, pos, "<%i,%i>", $I(p->x), $I(p->y)); }
static int64_t Pt_C_Int(var self) { struct Pt* p = self; return p->x * 1000 + p->y; }

static void r_rtobj(long* v, int nv) {
  long n = v[0], sd = v[1];
  pt_live = 0; pt_made = 0; pt_bad = 0;
  /* the variable is called like the struct so that $(Pt, ...) works, as for the built-in types */
  var Pt = new_root(Type, $S("Pt"), $I(sizeof(struct Pt)),
    $(New, Pt_New, Pt_Del), $(Assign, Pt_Assign), $(Cmp, Pt_Cmp), $(Hash, Pt_Hash),
    $(Show, Pt_Show, NULL), $(C_Int, Pt_C_Int));
  OUT("name=%s size=%zu isType=%d", c_str(Pt), size(Pt), (int)(type_of(Pt) is Type));
  var arr = new(Array, Pt);
  var tab = new(Table, Pt, Int);
  for (long i = 0; i < n; i++) {
    var p = new(Pt, $I((i * 5 + sd) % 7), $I((i * 3 + sd) % 4));
    push(arr, p);
    set(tab, p, $I(i));
    del(p);
  }
  sort(arr);
  var s = new(String, $S(""));
  int pos = 0;
  foreach (p in arr) { pos = print_to(s, pos, "%$", p); }
  OUT(" sorted=%s tablen=%zu", c_str(s), len(tab));
  struct Pt* probe = $(Pt, sd % 7, sd % 4, NULL);
  OUT(" probe=%d", (int)mem(tab, probe));
  if (mem(tab, probe)) { OUT("/%" PRId64, c_int(get(tab, probe))); }
  OUT(" typeof=%d", (int)(type_of(probe) is Pt));
  if (n > 0) {
    var first = get(arr, $I(0)); var last = get(arr, $I(-1));
    OUT(" cmp=%d meth=%d tmeth=%d hash=%" PRIu64 " cint=%" PRId64, cmp(first, last) < 0 ? -1 : cmp(first, last) > 0,
        method(first, Cmp, cmp, last) < 0 ? -1 : method(first, Cmp, cmp, last) > 0,
        type_method(Pt, Cmp, cmp, last, first) < 0 ? -1 : type_method(Pt, Cmp, cmp, last, first) > 0,
        hash(last), c_int(first));
  }
  OUT(" impl=%d%d%d%d%d", (int)implements(probe, Cmp), (int)implements(probe, Len), (int)implements_method(probe, Show, show),
      (int)implements_method(probe, Show, look), (int)type_implements_method(Pt, New, destruct));
  OUT(" inst=%d cast=%d", (int)(instance(probe, Hash) isnt NULL), (int)(cast(probe, Pt) is (var)probe));
  del(s); del(tab); del(arr);
  OUT(" live=%ld made=%ld bad=%ld", pt_live, pt_made > 0 ? 1L : 0L, pt_bad);
  del_root(Pt);
}

/* ---- gcl ---------------------------------------------------------------------------------------------- */
static void r_gcl(long* v, int nv) {
  long n = v[0], churn = v[1];
  var a = new(Array, Int);
  var l = new(List, Float);
  var t = new(Table, String, Int);
  var r = new(Tree, Int, String);
  var u = new(Tuple);
  var b = new(Array, Ref);
  var str = new(String, $S("seed"));
  for (long i = 0; i < n; i++) {
    char key[24]; snprintf(key, sizeof key, "k%ld", i);
    push(a, $I(i * 3));
    push(l, $F((double)i / 4.0));
    set(t, $S(key), $I(i * i));
    set(r, $I(100 - i), $S(key));
    var boxed = new(Int, $I(i + 1000));
    push(u, boxed);
    push(b, $R(new(String, $S(key))));
    for (long c = 0; c < churn; c++) { new(Int, $I(c)); if (c % 7 is 0) { new(String, $S("garbage")); } }
  }
  append(str, $S("+tail"));
  int64_t sa = 0, st = 0, su = 0; double sl = 0; size_t sb = 0, sr = 0;
  foreach (x in a) { sa += c_int(x); }
  foreach (x in l) { sl += c_float(x); }
  foreach (k in t) { st += c_int(get(t, k)); }
  foreach (k in r) { sr += strlen(c_str(get(r, k))); }
  foreach (x in u) { su += c_int(x); }
  foreach (x in b) { sb += strlen(c_str(deref(x))); }
  OUT("a=%" PRId64 " l=%.2f t=%" PRId64 " r=%zu u=%" PRId64 " b=%zu s=%s lens=%zu,%zu,%zu,%zu,%zu,%zu",
      sa, sl, st, sr, su, sb, c_str(str), len(a), len(l), len(t), len(r), len(u), len(b));
  del(a); del(l); del(t); del(r); del(u); del(b); del(str);
}

/* ---- pool --------------------------------------------------------------------------------------------- */
/* a user type with its own Alloc instance (a pool of 8 cells): objects are created with new and released with del;
 * every release must run the destructor and hand the cell back, so the pool never runs dry */
struct PoolT { int64_t v; };
#define POOLN 8
#define POOLC (sizeof(struct Header) + sizeof(struct PoolT))
static char pool_mem[POOLN][64]; static int pool_used[POOLN];
static long pool_allocs, pool_deallocs, pool_dtors, pool_dry;
static var PoolT;
static var PoolT_Alloc(void) {
  for (int i = 0; i < POOLN; i++) {
    if (not pool_used[i]) {
      pool_used[i] = 1; pool_allocs++;
      memset(pool_mem[i], 0, sizeof pool_mem[i]);
      return header_init(pool_mem[i], PoolT, AllocHeap);
    }
  }
  pool_dry++;
  return header_init(calloc(1, 64), PoolT, AllocHeap);     /* pool exhausted: never happens when del works */
}
static void PoolT_Dealloc(var self) {
  char* c = (char*)self - sizeof(struct Header);
  for (int i = 0; i < POOLN; i++) { if (c is pool_mem[i]) { pool_used[i] = 0; pool_deallocs++; return; } }
  pool_deallocs++; free(c);
}
static void PoolT_New(var self, var args) { ((struct PoolT*)self)->v = c_int(get(args, $I(0))); }
static void PoolT_Del(var self) { pool_dtors++; }
static var PoolT = Cello(PoolT, Instance(Alloc, PoolT_Alloc, PoolT_Dealloc), Instance(New, PoolT_New, PoolT_Del));
static void r_pool(long* v, int nv) {
  long n = v[0], keep = v[1] % POOLN;
  if (sizeof pool_mem[0] < POOLC) { harness_bug("pool cell too small"); }
  pool_allocs = pool_deallocs = pool_dtors = pool_dry = 0;
  memset(pool_used, 0, sizeof pool_used);
  var held[POOLN]; long nh = 0; int64_t sum = 0;
  for (long i = 0; i < n; i++) {
    var x = new(PoolT, $I(i * 7));
    sum += ((struct PoolT*)x)->v;
    if (nh < keep) { held[nh++] = x; } else { del(x); }
  }
  for (long i = 0; i < nh; i++) { sum += ((struct PoolT*)held[i])->v; del(held[i]); }
  int inuse = 0; for (int i = 0; i < POOLN; i++) { inuse += pool_used[i]; }
  OUT("sum=%" PRId64 " allocs=%ld deallocs=%ld dtors=%ld dry=%ld inuse=%d", sum, pool_allocs, pool_deallocs, pool_dtors, pool_dry, inuse);
}

/* ---- roots -------------------------------------------------------------------------------------------- */
/* root objects referenced only from static memory (the collector cannot see the pointers) while garbage is allocated:
 * the registry grows and shrinks through several sizes and collections run; the roots must survive all of it */
static var roots_hold[40];
static __attribute__((noinline)) void roots_make(long n, long base) {
  for (long i = 0; i < n; i++) { roots_hold[i] = new_root(Int, $I(base + i * 11)); }
}
static __attribute__((noinline)) int64_t roots_churn(long n) {
  int64_t acc = 0;
  for (long i = 0; i < n; i++) { acc += c_int(new(Int, $I(i))); if (i % 5 is 0) { new(String, $S("churn")); } }
  return acc;
}
static __attribute__((noinline)) void roots_scrub(void) { volatile char pad[4096]; for (size_t i = 0; i < sizeof pad; i++) { pad[i] = 0; } }
static void r_roots(long* v, int nv) {
  long n = v[0] % 41, churn = v[1];
  roots_make(n, 500);
  roots_scrub();
  int64_t acc = roots_churn(churn);
  roots_scrub();
  acc += roots_churn(churn / 2) & 1;
  int64_t sum = 0;
  for (long i = 0; i < n; i++) { sum += c_int(roots_hold[i]); }
  for (long i = 0; i < n; i++) { del_root(roots_hold[i]); roots_hold[i] = NULL; }
  OUT("acc=%" PRId64 " roots=%ld sum=%" PRId64, acc, n, sum);
}

/* ---- regs --------------------------------------------------------------------------------------------- */
/* six collected objects kept alive in plain local variables (and nowhere else) while small non-inlined helpers allocate
 * garbage, so that collections run while the six are live: at -O1 and above such locals sit in callee-saved registers
 * that no callee on the way to the collector needs to spill, so they are only seen if the collector saves the registers */
static __attribute__((noinline)) int64_t regs_one(int64_t v) { return c_int(new(Int, $I(v))); }
static __attribute__((noinline)) int64_t regs_churn(long n, int64_t from) {
  int64_t acc = 0;
  for (long i = 0; i < n; i++) { acc += regs_one(from + i); }
  return acc;
}
static __attribute__((noinline)) void r_regs(long* v, int nv) {
  long rounds = v[0], base = v[1];
  var a = new(Int, $I(base + 1));
  var b = new(Int, $I(base + 2));
  var c = new(Int, $I(base + 3));
  var d = new(Int, $I(base + 4));
  var e = new(Int, $I(base + 5));
  var f = new(Int, $I(base + 6));
  int64_t acc = regs_churn(rounds, 0);
  acc += regs_churn(64, 7000000) & 1;        /* memory of anything freed gets reused */
  OUT("acc=%" PRId64 " six=%" PRId64 ",%" PRId64 ",%" PRId64 ",%" PRId64 ",%" PRId64 ",%" PRId64,
      acc, c_int(a), c_int(b), c_int(c), c_int(d), c_int(e), c_int(f));
}

/* ---- stk ---------------------------------------------------------------------------------------------- */
struct Vec { double x, y; };
static int Vec_Cmp(var self, var obj) {
  struct Vec* a = self; struct Vec* b = obj;
  double la = a->x * a->x + a->y * a->y, lb = b->x * b->x + b->y * b->y;
  return la < lb ? -1 : la > lb;
}
static double Vec_C_Float(var self) { struct Vec* a = self; return a->x + a->y; }
static var Vec = Cello(Vec, Instance(Cmp, Vec_Cmp), Instance(C_Float, Vec_C_Float));

static void r_stk(long* v, int nv) {
  long a = v[0], b = v[1];
  var i = $I(a); var f = $F((double)b / 4.0); var s = $S("lit");
  var rf = $R(i);
  var tp = tuple(i, f, s, rf);
  OUT("deref=%d types=", (int)(deref(rf) is i));
  foreach (x in tp) { OUT("%s,", c_str(type_of(x))); }
  struct Vec* v1 = $(Vec, (double)a, 1.5); struct Vec* v2 = $(Vec, 0.5, (double)b);
  int c = cmp(v1, v2);
  OUT(" vcmp=%d vsum=%.2f vtype=%d vsize=%zu isize=%zu", c < 0 ? -1 : c > 0, c_float(v1) + c_float(v2), (int)(type_of(v2) is Vec), size(Vec), size(Int));
  var st = alloc_stack(Int);
  OUT(" zero=%" PRId64, c_int(st));
  assign(st, i);
  OUT(" assigned=%" PRId64 " eq=%d hash=%d", c_int(st), (int)eq(st, i), (int)(hash(st) is (uint64_t)a));
  /* (a String cannot be constructed on the stack: its buffer handling insists on a heap object) */
  var ci = construct(alloc_stack(Int), $I(b));
  var cf = construct(alloc_stack(Float), f);
  OUT(" constructed=%" PRId64 "/%.2f", c_int(ci), c_float(cf));
  destruct(ci); destruct(cf);
  /* a stack Tuple over a C array of items, a stack Range and Slice filled in by hand (public structs) */
  var items[4] = { i, st, $I(b), Terminal };
  var tu = $(Tuple, items);
  var rg = $(Range, $I(0), 0, a % 5 + 1, 1);
  int64_t tsum = 0, rsum = 0;
  foreach (x in tu) { tsum += c_int(x); }
  foreach (x in rg) { rsum = rsum * 10 + c_int(x); }
  OUT(" tuple=%zu/%" PRId64 " range=%zu/%" PRId64, len(tu), tsum, len(rg), rsum);
}

/* ---- call --------------------------------------------------------------------------------------------- */
static var f_add(var args) {
  int64_t t = 0;
  foreach (x in args) { t += c_int(x); }
  return new(Int, $I(t));
}
static void r_call(long* v, int nv) {
  long a = v[0], b = v[1];
  var r1 = call($(Function, f_add), $I(a), $I(b));
  var r0 = call($(Function, f_add));
  var r3 = call_with($(Function, f_add), tuple($I(a), $I(b), $I(a * b)));
  OUT("r=%" PRId64 ",%" PRId64 ",%" PRId64, c_int(r1), c_int(r0), c_int(r3));
  del(r1); del(r0); del(r3);
}

/* ---- meth --------------------------------------------------------------------------------------------- */
static void r_meth(long* v, int nv) {
  long a = v[0];
  var arr = new(Array, Int, $I(a), $I(a + 1));
  var t = type_of($I(5));
  int c1 = method($I(a), Cmp, cmp, $I(4));
  int c2 = type_method(t, Cmp, cmp, $I(5), $I(6));
  OUT("len=%zu c1=%d c2=%d", method(arr, Len, len), c1 < 0 ? -1 : c1 > 0, c2 < 0 ? -1 : c2 > 0);
  OUT(" impl=%d%d%d%d%d%d", (int)type_implements(t, New), (int)type_implements(t, Cmp), (int)type_implements(t, Len),
      (int)implements_method(arr, Push, push_at), (int)type_implements_method(Int, Cmp, cmp), (int)implements(arr, C_Int));
  OUT(" inst=%d%d cstr=%s", (int)(instance(arr, Get) isnt NULL), (int)(type_instance(Int, Get) isnt NULL), method(String, C_Str, c_str));
  method(arr, Push, push, $I(9));
  OUT(" pushed=%zu/%" PRId64, len(arr), c_int(method(arr, Get, get, $I(-1))));
  del(arr);
}

/* ---- lock --------------------------------------------------------------------------------------------- */
static void r_lock(long* v, int nv) {
  long a = v[0];
  var m = new(Mutex);
  long c = 0;
  for (long i = 0; i < a; i++) { with (mm in m) { c += i; } }
  bool got = trylock(m);
  unlock(m);
  lock(m); c += 1000; unlock(m);
  OUT("c=%ld try=%d", c, (int)got);
  del(m);
}

/* ---- thr ---------------------------------------------------------------------------------------------- */
#define MAXTHR 8
static var T_thr[MAXTHR];
static long T_res[MAXTHR], T_tls[MAXTHR], T_cur[MAXTHR], T_exc[MAXTHR], T_other[MAXTHR];

static var thr_fn(var args) {
  var mut = get(args, $I(0));
  var tot = get(args, $I(1));
  long k = (long)c_int(get(args, $I(2))), iters = (long)c_int(get(args, $I(3)));
  var a = new(Array, Int);
  for (long i = 0; i < iters; i++) { push(a, $I(i * (k + 1))); }
  long s = 0;
  foreach (x in a) { s += (long)c_int(x); }
  var mine = new(Int, $I(1000 + k));
  set(current(Thread), $S("slot"), mine);
  for (long i = 0; i < iters; i++) {
    if (i % 2) { lock(mut); assign(tot, $I(c_int(tot) + 1)); unlock(mut); }
    else { with (mm in mut) { int64_t c = c_int(tot); if (i % 16 is 0) { sched_yield(); } assign(tot, $I(c + 1)); } }
    if (i % 5 is 0) { new(String, $S("thread garbage")); }
  }
  volatile long e = 0;
  try { e = 1; throw(KeyError, "t%i", $I(k)); } catch (ex in KeyError) { e = e * 10 + 2; }
  T_exc[k] = e * 10 + exc_depth();
  T_tls[k] = (long)c_int(get(current(Thread), $S("slot")));
  T_other[k] = (long)mem(current(Thread), $S("mainslot"));
  T_cur[k] = current(Thread) is T_thr[k];
  rem(current(Thread), $S("slot"));
  del(a); del(mine);
  T_res[k] = s;
  return NULL;
}

static void r_thr(long* v, int nv) {
  long n = v[0], iters = v[1];
  if (n < 1 or n > MAXTHR) { harness_bug("thr: count"); }
  /* raw Thread / Mutex objects: a collector-registered Thread object would have its thread-local table traced by
   * this thread's collections while the new thread fills it (known finding C13 gc-marks-running-thread-tls) */
  var mutex = new_raw(Mutex);
  var total = $I(0);
  var mainval = new(Int, $I(77));
  set(current(Thread), $S("mainslot"), mainval);
  var ks[MAXTHR]; var it = new_raw(Int, $I(iters));
  var fn = $(Function, thr_fn);              /* function scope: the Thread objects keep the pointer */
  for (long k = 0; k < n; k++) {
    ks[k] = new_raw(Int, $I(k));
    T_thr[k] = new_raw(Thread, fn);
  }
  for (long k = 0; k < n; k++) { call(T_thr[k], mutex, total, ks[k], it); }
  for (long k = 0; k < n; k++) { join(T_thr[k]); }
  OUT("total=%" PRId64 " main=%" PRId64 "/%d", c_int(total), c_int(get(current(Thread), $S("mainslot"))), (int)mem(current(Thread), $S("slot")));
  for (long k = 0; k < n; k++) { OUT(" t%ld=%ld,%ld,%ld,%ld,%ld", k, T_res[k], T_tls[k], T_other[k], T_cur[k], T_exc[k]); }
  rem(current(Thread), $S("mainslot"));
  for (long k = 0; k < n; k++) { del_raw(T_thr[k]); del_raw(ks[k]); T_thr[k] = NULL; }
  del_raw(it); del_raw(mutex); del(mainval);
}

/* ---- driver ------------------------------------------------------------------------------------------- */
static struct { const char* name; void (*f)(long*, int); int nargs; } ROUTINES[] = {
  {"tup", r_tup, 7}, {"each", r_each, 3}, {"views", r_views, 5}, {"exc", r_exc, 2}, {"fmt", r_fmt, 3},
  {"rtobj", r_rtobj, 2}, {"gcl", r_gcl, 2}, {"stk", r_stk, 2}, {"call", r_call, 2}, {"meth", r_meth, 1},
  {"lock", r_lock, 1}, {"thr", r_thr, 2}, {"regs", r_regs, 2}, {"pool", r_pool, 2}, {"roots", r_roots, 2}, {NULL, NULL, 0}
};

int main(int argc, char** argv) {
  char* w[MAXW];
  while (true) {
    char* line = rd_line();
    if (line is NULL) { break; }
    if (strcmp(line, "end") is 0) {
#if defined(CELLO_VERIF) && !defined(CELLO_NGC)
      { extern void Cello_Verif_GC_Collect(var); Cello_Verif_GC_Collect(current(GC)); }
#endif
      printf("done\n"); fflush(stdout); continue;
    }
    int n = split(line, w, MAXW);
    if (n is 0) { continue; }
    int r = 0;
    while (ROUTINES[r].name and strcmp(ROUTINES[r].name, w[0]) isnt 0) { r++; }
    if (ROUTINES[r].name is NULL or n - 1 isnt ROUTINES[r].nargs) { harness_bug("unknown routine or argument count"); }
    long args[8]; memset(args, 0, sizeof args);
    for (int i = 1; i < n and i <= 8; i++) { args[i - 1] = strtol(w[i], NULL, 10); }
    outn = 0; outb[0] = 0;
    var volatile exc = NULL;
    try { ROUTINES[r].f(args, n - 1); } catch (e) { exc = e; }
    if (exc) { printf("exc %s after: %s\n", c_str(exc), outb); }
    else { printf("ok %s\n", outb); }
  }
  return 0;
}
