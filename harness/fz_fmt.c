/* libFuzzer target for C14 / C15: bytes are decoded into (prefix, start position, format pieces, arguments).
 * Oracle inside the target: print_to into a heap String must equal prefix[:pos] + concatenation of what
 * snprintf gives per conversion for the C value the specification designates (literals verbatim), the
 * returned position must be pos + characters written, and show/look of every Int / Float / String
 * argument must round-trip consuming exactly the characters written; so must print_to / scan_from with a numeric
 * specification (every integer width, f e g a for Float) placed between two literal '%'.
 * Build: clang -fsanitize=fuzzer,address (library objects with fuzzer-no-link).  A violation traps
 * (libFuzzer keeps the input as crash-*); FZ_EXPLAIN=1 prints the decoded case for a single input. */
#include "Cello.h"
#include <inttypes.h>
#include <unistd.h>

#undef main

static const uint8_t* D; static size_t N, P;
static unsigned u8(void) { return P < N ? D[P++] : 0; }
static uint64_t u64(void) { uint64_t v = 0; for (int i = 0; i < 8; i++) { v = (v << 8) | u8(); } return v; }

static int explain = 0;
static void fail(const char* what, const char* fmt, const char* got, const char* want) {
  fprintf(stderr, "FZ-VIOLATION %s\n  format: [%s]\n  got:    [%s]\n  want:   [%s]\n", what, fmt, got, want);
  __builtin_trap();
}

static int64_t pick_int(void) {
  static const int64_t grid[] = { 0, 1, -1, 127, 128, 255, 256, 32767, 32768, 65535, 65536, 2147483647LL, 2147483648LL,
    -2147483648LL, -2147483649LL, 4294967295LL, 4294967296LL, INT64_MAX, INT64_MIN, 1234567890123LL };
  unsigned k = u8();
  if (k < 160) { return grid[k % (sizeof grid / sizeof grid[0])]; }
  return (int64_t)u64();
}
static double pick_flt(void) {
  static const double grid[] = { 0.0, -0.0, 1.0, -1.0, 0.5, 1e-7, 123456.789, 16777217.0, 1e22, 1e300, 1e-300, 5e-324,
    2.2250738585072014e-308, 1.7976931348623157e308, 3.141592653589793, -2.5 };
  unsigned k = u8();
  if (k < 160) { return grid[k % (sizeof grid / sizeof grid[0])]; }
  if (k < 200) { return (double)(int64_t)u64() / 1024.0; }
  if (k < 230) { double d = 1.0 + (u8() % 90) / 10.0; unsigned e = u8() % 150 + u8() % 150; for (unsigned i = 0; i < e; i++) { d *= 10.0; } return (u8() & 1) ? -d : d; }   /* every %f text length */
  uint64_t b = u64(); double d; memcpy(&d, &b, 8);
  if (d != d or d - d != 0.0) { return 1.25; }       /* no NaN / inf here */
  return d;
}

int LLVMFuzzerInitialize(int* argc, char*** argv) {
  static var bottom = NULL;
  /* the collector of the main thread, as Cello's main macro would set it up */
  new_raw(GC, $R(&bottom));
  stop(current(GC));          /* everything in this target is deleted by hand */
  explain = getenv("FZ_EXPLAIN") isnt NULL;
  return 0;
}

int LLVMFuzzerTestOneInput(const uint8_t* data, size_t size) {
  D = data; N = size; P = 0;
  char fmt[2048]; size_t fl = 0;
  char want[65536]; size_t wl = 0;
  var args[9]; int nargs = 0;
  var owned[9]; int nowned = 0;
  char prefix[24]; size_t pl = u8() % 16;
  for (size_t i = 0; i < pl; i++) { unsigned c = u8(); prefix[i] = (char)(c is 0 ? 'p' : c); }
  prefix[pl] = 0;
  size_t pos = pl ? u8() % (pl + 1) : 0;
  int npieces = 1 + u8() % 8;
  for (int pi = 0; pi < npieces and fl < 1800 and wl < 60000 and nargs < 8; pi++) {
    unsigned kind = u8() % 8;
    if (kind is 0) {                       /* literal */
      size_t ll = 1 + u8() % 8;
      for (size_t i = 0; i < ll; i++) { unsigned c = u8(); if (c is 0 or c is '%') { c = 'x'; } fmt[fl++] = (char)c; want[wl++] = (char)c; }
    } else if (kind is 1) {
      fmt[fl++] = '%'; fmt[fl++] = '%'; want[wl++] = '%';
    } else {
      static const char convs[] = "diuoxXcsfFeEgGaA$";
      char cv = convs[u8() % (sizeof convs - 1)];
      char spec[64]; size_t sl = 0;
      spec[sl++] = '%';
      unsigned fb = u8();
      const char* allowed = strchr("di", cv) ? "-+ 0" : cv is 'u' ? "-0" : strchr("oxX", cv) ? "-#0" : strchr("fFeEgGaA", cv) ? "-+ #0" : (cv is 'c' or cv is 's') ? "-" : "";
      bool minus = false, plus = false;
      for (size_t i = 0; allowed[i]; i++) {
        if (fb & (1u << i)) {
          if (allowed[i] is ' ' and plus) { continue; }
          if (allowed[i] is '0' and minus) { continue; }
          if (allowed[i] is '-') { minus = true; }
          if (allowed[i] is '+') { plus = true; }
          spec[sl++] = allowed[i];
        }
      }
      if (cv isnt '$') {
        unsigned w = u8();
        if (w & 1) { sl += (size_t)sprintf(spec + sl, "%u", (w >> 1) % 41); }
        unsigned pr = u8();
        if ((pr & 1) and cv isnt 'c') { sl += (size_t)sprintf(spec + sl, ".%u", (pr >> 1) % (strchr("fF", cv) ? 31 : 41)); }
      } else { sl = 1; }
      const char* lm = "";
      if (strchr("diuoxX", cv)) { static const char* lms[] = { "", "", "hh", "h", "l", "ll", "j", "z", "t" }; lm = lms[u8() % 9]; }
      else if (strchr("fFeEgGaA", cv)) { lm = (u8() & 3) is 0 ? "l" : ""; }
      sl += (size_t)sprintf(spec + sl, "%s%c", lm, cv);
      spec[sl] = 0;
      memcpy(fmt + fl, spec, sl); fl += sl;
      char buf[8192]; int r = 0;
      if (strchr("di", cv)) {
        int64_t v = pick_int(); var a = new_raw(Int, $I(v)); args[nargs++] = a; owned[nowned++] = a;
        if (lm[0] is 0) { r = snprintf(buf, sizeof buf, spec, (int)v); }
        else if (strcmp(lm, "hh") is 0) { r = snprintf(buf, sizeof buf, spec, (int)(signed char)v); }
        else if (strcmp(lm, "h") is 0) { r = snprintf(buf, sizeof buf, spec, (int)(short)v); }
        else if (strcmp(lm, "l") is 0) { r = snprintf(buf, sizeof buf, spec, (long)v); }
        else if (strcmp(lm, "ll") is 0) { r = snprintf(buf, sizeof buf, spec, (long long)v); }
        else if (strcmp(lm, "j") is 0) { r = snprintf(buf, sizeof buf, spec, (intmax_t)v); }
        else if (strcmp(lm, "z") is 0) { r = snprintf(buf, sizeof buf, spec, (ssize_t)v); }
        else { r = snprintf(buf, sizeof buf, spec, (ptrdiff_t)v); }
      } else if (strchr("uoxX", cv)) {
        int64_t v = pick_int(); var a = new_raw(Int, $I(v)); args[nargs++] = a; owned[nowned++] = a;
        if (lm[0] is 0) { r = snprintf(buf, sizeof buf, spec, (unsigned)v); }
        else if (strcmp(lm, "hh") is 0) { r = snprintf(buf, sizeof buf, spec, (unsigned)(unsigned char)v); }
        else if (strcmp(lm, "h") is 0) { r = snprintf(buf, sizeof buf, spec, (unsigned)(unsigned short)v); }
        else if (strcmp(lm, "l") is 0) { r = snprintf(buf, sizeof buf, spec, (unsigned long)v); }
        else if (strcmp(lm, "ll") is 0) { r = snprintf(buf, sizeof buf, spec, (unsigned long long)v); }
        else if (strcmp(lm, "j") is 0) { r = snprintf(buf, sizeof buf, spec, (uintmax_t)v); }
        else if (strcmp(lm, "z") is 0) { r = snprintf(buf, sizeof buf, spec, (size_t)v); }
        else { r = snprintf(buf, sizeof buf, spec, (ptrdiff_t)v); }
      } else if (strchr("fFeEgGaA", cv)) {
        double v = pick_flt(); var a = new_raw(Float, $F(v)); args[nargs++] = a; owned[nowned++] = a;
        r = snprintf(buf, sizeof buf, spec, v);
      } else if (cv is 'c') {
        int v = 1 + (int)(u8() % 255); var a = new_raw(Int, $I(v)); args[nargs++] = a; owned[nowned++] = a;
        r = snprintf(buf, sizeof buf, spec, v);
      } else if (cv is 's') {
        char s[20]; size_t l = u8() % 12;
        for (size_t i = 0; i < l; i++) { unsigned c = u8(); s[i] = (char)(c is 0 ? '%' : c); }
        s[l] = 0;
        var a = new_raw(String, $S(s)); args[nargs++] = a; owned[nowned++] = a;
        r = snprintf(buf, sizeof buf, spec, s);
      } else {                             /* %$ of an Int or Float */
        if (u8() & 1) { int64_t v = pick_int(); var a = new_raw(Int, $I(v)); args[nargs++] = a; owned[nowned++] = a; r = snprintf(buf, sizeof buf, "%li", (long)v); }
        else { double v = pick_flt(); var a = new_raw(Float, $F(v)); args[nargs++] = a; owned[nowned++] = a; r = snprintf(buf, sizeof buf, "%f", v); }
      }
      if (r < 0 or (size_t)r >= sizeof buf or wl + (size_t)r >= sizeof want) { break; }
      memcpy(want + wl, buf, (size_t)r); wl += (size_t)r;
    }
  }
  fmt[fl] = 0; want[wl] = 0;
  args[nargs] = Terminal;
  if (explain) { fprintf(stderr, "format=[%s] nargs=%d pos=%zu prefix=[%s]\nwant=[%s]\n", fmt, nargs, pos, prefix, want); }

  /* print_to into a heap String at pos */
  var out = new_raw(String, $S(prefix));
  var volatile exc = NULL; volatile int ret = -1;
  try { ret = print_to_with(out, (int)pos, fmt, $(Tuple, args)); } catch (e) { exc = e; }
  if (exc) { fail("print_to raised on a well-formed format", fmt, c_str(exc), want); }
  char* got = c_str(out);
  if (strncmp(got, prefix, pos) isnt 0 or strcmp(got + pos, want) isnt 0) { fail("output differs from snprintf", fmt, got + (strlen(got) >= pos ? pos : 0), want); }
  if ((size_t)ret isnt pos + wl) { fail("returned position", fmt, got, want); }
  del_raw(out);

  /* show / look round trip of every argument (C15) */
  for (int i = 0; i < nargs; i++) {
    var a = args[i]; var t = type_of(a);
    var txt = new_raw(String, $S(prefix));
    var volatile e2 = NULL; volatile int w = -1, rd = -1;
    var back = t is Int ? (var)new_raw(Int, $I(-77)) : t is Float ? (var)new_raw(Float, $F(-77.5)) : (var)new_raw(String, $S("zz"));
    try { w = show_to(a, txt, (int)pos); append(txt, $S(" #")); rd = look_from(back, txt, (int)pos); } catch (e) { e2 = e; }
    if (e2) { fail("show/look raised", c_str(txt), c_str(e2), ""); }
    if (rd isnt w) { fail("look consumed a different number of characters than show wrote", c_str(txt), "", ""); }
    if (t is Int and c_int(back) isnt c_int(a)) { fail("Int round trip", c_str(txt), "", ""); }
    if (t is String and strcmp(c_str(back), c_str(a)) isnt 0) { fail("String round trip", c_str(txt), c_str(back), c_str(a)); }
    if (t is Float) {
      double x = c_float(a), y = c_float(back), d = x > y ? x - y : y - x, ax = x < 0 ? -x : x;
      if (d > 0.5e-6 + ax * 2.3e-16) { fail("Float round trip", c_str(txt), "", ""); }
    }
    del_raw(back); del_raw(txt);
  }
  /* print_to / scan_from with a numeric specification between two literal '%' (C15): the value comes back as C's
  ** printf / scanf pair gives it (truncated to the named type on write, widened on read; Float within the printed digits) */
  for (int i = 0; i < nargs; i++) {
    var a = args[i]; var t = type_of(a);
    if (t is String) { continue; }
    static const char* ifmts[] = { "%li", "%ld", "%lx", "%lo", "%lu", "%i", "%d", "%hd", "%hhu", "%x", "%jX", "%zd", "%hhi", "%hu", "%o", "%lli" };
    static const char* ffmts[] = { "%lf", "%le", "%lg", "%la", "%.17lg", "%lA", "%lE", "%.3lf" };
    unsigned k = u8();
    const char* sp = t is Int ? ifmts[k % 16] : ffmts[k % 8];
    char f[40], rf[40]; snprintf(f, sizeof f, "%%%%%s%%%%;", sp);
    /* the reader's specification carries no precision */
    snprintf(rf, sizeof rf, "%%%%%s%%%%;", strcmp(sp, "%.17lg") is 0 ? "%lg" : strcmp(sp, "%.3lf") is 0 ? "%lf" : sp);
    var txt = new_raw(String, $S(prefix));
    var back = t is Int ? (var)new_raw(Int, $I(-77)) : (var)new_raw(Float, $F(-77.5));
    var volatile e3 = NULL; volatile int w = -1, rd = -1;
    try { w = print_to(txt, (int)pos, f, a); append(txt, $S(" #")); rd = scan_from(txt, (int)pos, rf, back); } catch (e) { e3 = e; }
    if (e3) { fail("print_to/scan_from raised", f, c_str(e3), c_str(txt)); }
    if (rd isnt w) { fail("scan_from consumed a different number of characters than print_to wrote", f, c_str(txt), ""); }
    if (t is Int) {
      int64_t v = c_int(a), want = v; k = k % 16;
      if (k is 5 or k is 6) { want = (int)v; } else if (k is 7) { want = (short)v; } else if (k is 8) { want = (unsigned char)v; }
      else if (k is 9 or k is 14) { want = (unsigned)v; } else if (k is 12) { want = (signed char)v; } else if (k is 13) { want = (unsigned short)v; }
      if (c_int(back) isnt want) { fail("Int print/scan round trip", f, c_str(txt), ""); }
    } else {
      double x = c_float(a), y = c_float(back), d = x > y ? x - y : y - x, ax = x < 0 ? -x : x, tol = ax * 2.3e-16;
      k = k % 8;
      if (k is 0) { tol += 0.5e-6; } else if (k is 1 or k is 6) { tol += ax * 0.5e-6; } else if (k is 2) { tol += ax * 0.5e-5; } else if (k is 7) { tol += 0.5e-3; }
      if (d > tol and not (y - y isnt 0.0 and ax > 1.7e308)) { fail("Float print/scan round trip", f, c_str(txt), ""); }
    }
    del_raw(back); del_raw(txt);
  }
  for (int i = 0; i < nowned; i++) { del_raw(owned[i]); }
  return 0;
}
