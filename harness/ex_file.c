/* ex_file: C20 executor.  Keeps up to two Cello `File` objects; every operation is applied to
 * the Cello File (inside the real try/catch macros) and to a *twin* plain-stdio FILE* working on
 * a second temp file with the identical libc call.  Both results are printed so the Python side
 * (lib/vf/props/c20.py) can compare them with each other and with its own byte-string model.
 *
 * fopen/fclose are interposed with -Wl,--wrap: every stream opened by the library is entered in
 * a table; a close of a pointer that is not an open table entry (NULL, already closed, unknown)
 * is *not* forwarded to libc but counted as `bad` (kind in badk=).  Twin streams use
 * __real_fopen/__real_fclose and are invisible to the accounting.
 *
 * One answer line per op:  "ok <fields>" | "exc <ExceptionName> <fields>"
 * common trailing fields:  fo=<successful fopen> fx=<failed fopen> fc=<accepted fclose>
 *                          bad=<rejected fclose> [badk=..] [p=<stell>,<ftell>,<seof>,<feof>]
 * ops:  begin <probe>            -> dir=<tmpdir> bufsiz=<BUFSIZ>
 *       alloc f                  F[f] = new(File)
 *       new f pid mode           F[f] = new(File, $S(path), $S(mode))
 *       sopen f pid mode         sopen(F[f], $S(path), $S(mode))      (reopen when already open)
 *       swrite f <hex|->   sread f n   sseek f off origin   stell f   seof f   sflush f
 *       print f item..           items  l:<hex> p i:<dec> d:<dec> q:<hex> s:<hex> f:<bits> g:<bits>
 *       scan f item..            items  l:<hex> p i d q s f g G
 *       sclose f   del f   with f ... endwith
 * At "end": remaining File objects are del'd, accounting totals and both files' bytes are
 * printed ("final ..." lines), temp files and the directory are removed.
 */
#include "common.h"
#include <stdarg.h>
#include <fcntl.h>
#include <sys/stat.h>
#include <errno.h>

FILE* __real_fopen(const char* path, const char* mode);
int   __real_fclose(FILE* f);

#define NF 2
#define NP 3
#define SENT 0xAA

/* ---- fopen/fclose accounting ----------------------------------------------------------- */
#define NTAB 8192
static struct { FILE* p; int open; } tab[NTAB];
static int ntab = 0;
static int a_fo, a_fx, a_fc, a_bad;          /* per-op deltas */
static int t_fo, t_fc, t_bad;                /* per-case totals */
static char a_badk[96];

FILE* __wrap_fopen(const char* path, const char* mode) {
  FILE* f = __real_fopen(path, mode);
  if (f isnt NULL) {
    a_fo++; t_fo++;
    if (ntab >= NTAB) { harness_bug("accounting table full"); }
    tab[ntab].p = f; tab[ntab].open = 1; ntab++;
  } else { a_fx++; }
  return f;
}

int __wrap_fclose(FILE* f) {
  bool seen = false;
  for (int i = ntab - 1; i >= 0; i--) {
    if (tab[i].p is f) {
      if (tab[i].open) { tab[i].open = 0; a_fc++; t_fc++; return __real_fclose(f); }
      seen = true;
    }
  }
  a_bad++; t_bad++;
  const char* k = f is NULL ? "null" : seen ? "already-closed" : "unknown";
  if (strlen(a_badk) + strlen(k) + 2 < sizeof a_badk) { if (a_badk[0]) { strcat(a_badk, "+"); } strcat(a_badk, k); }
  errno = EBADF;
  return EOF;                                /* never touch a stale handle */
}

static int still_open(void) {
  int n = 0;
  for (int i = 0; i < ntab; i++) { n += tab[i].open; }
  return n;
}

/* ---- output buffer --------------------------------------------------------------------- */
static char* ob = NULL; static size_t on = 0, oc = 0;
static void oreserve(size_t k) {
  if (on + k + 1 > oc) { oc = (on + k + 1) * 2 + 256; ob = realloc(ob, oc); }
}
static void outf(const char* fmt, ...) {
  va_list va; va_start(va, fmt);
  char tmp[512];
  int k = vsnprintf(tmp, sizeof tmp, fmt, va);
  va_end(va);
  if (k < 0) { return; }
  if ((size_t)k >= sizeof tmp) { k = sizeof tmp - 1; }
  oreserve(k); memcpy(ob + on, tmp, k); on += k; ob[on] = 0;
}
static void outhex(const void* data, size_t n) {
  static const char* H = "0123456789abcdef";
  const unsigned char* d = data;
  if (n is 0) { outf("-"); return; }
  oreserve(2 * n);
  for (size_t i = 0; i < n; i++) { ob[on++] = H[d[i] >> 4]; ob[on++] = H[d[i] & 15]; }
  ob[on] = 0;
}

/* ---- per-op arena and stack-class temporaries -------------------------------------------- */
static void* arena[256]; static int narena = 0;
static void* keep(void* p) { if (narena >= 256) { harness_bug("arena full"); } arena[narena++] = p; return p; }
static void arena_free(void) { for (int i = 0; i < narena; i++) { free(arena[i]); } narena = 0; }
static var mk_stack(var type, const void* data, size_t sz) {
  char* buf = keep(calloc(1, sizeof(struct Header) + sz + 8));
  var o = header_init(buf, type, AllocStack);
  memcpy(o, data, sz);
  return o;
}
static var mk_int(int64_t v) { struct Int x = { v }; return mk_stack(Int, &x, sizeof x); }
static var mk_flt(double d) { struct Float x = { d }; return mk_stack(Float, &x, sizeof x); }
static var mk_str(char* s) { struct String x = { s }; return mk_stack(String, &x, sizeof x); }
static var mk_tuple(var* items) { struct Tuple x = { items }; return mk_stack(Tuple, &x, sizeof x); }

/* ---- state ----------------------------------------------------------------------------- */
static var* F;                 /* Cello File objects, array lives in main's frame */
static FILE* T[NF];            /* twins */
static char dir[64] = "";
static int probe_on = 1;
static int want_depth = 0;      /* try frames legitimately open around the current op (with nesting) */
static char cpath[NP][96], tpath[NP][96];

static var volatile exc;       /* exception of the current op */
/* results written inside try blocks: statics, so longjmp cannot clobber them */
static size_t  c_sz; static int64_t c_i64; static int c_int_; static bool c_b; static var c_v;

#define CELLO(stmt) do { exc = NULL; try { stmt; } catch (e) { exc = e; } } while (0)

static int fidx(const char* w) {
  int f = atoi(w);
  if (f < 0 or f >= NF) { harness_bug("file index"); }
  return f;
}
static int pidx(const char* w) {
  int p = atoi(w);
  if (p < 0 or p >= NP) { harness_bug("path index"); }
  return p;
}
static void need(int f) { if (F[f] is NULL) { harness_bug("op on absent File slot"); } }

#define HND(f) (((struct File*)F[f])->file)

static void twin_close(int f) { if (T[f]) { __real_fclose(T[f]); T[f] = NULL; } }

static void acct_reset(void) { a_fo = a_fx = a_fc = a_bad = 0; a_badk[0] = 0; }

/* emit one answer line: status + fields + accounting + optional probe on file pf (-1: none) */
static void finish(int pf) {
  int fo = a_fo, fx = a_fx, fc = a_fc, bad = a_bad;
  char badk[96]; strcpy(badk, a_badk);
  var e = exc;
  if (e) { printf("exc %s", c_str(e)); } else { printf("ok"); }
  if (on) { printf(" %s", ob); }
  printf(" fo=%d fx=%d fc=%d bad=%d", fo, fx, fc, bad);
  if (bad) { printf(" badk=%s", badk); }
  if (probe_on and pf >= 0 and F[pf] isnt NULL and T[pf] isnt NULL) {
    /* observers only: stell/seof against ftell/feof of the twin */
    var volatile pe = NULL;
    try { c_i64 = stell(F[pf]); c_b = seof(F[pf]); } catch (e2) { pe = e2; }
    if (pe) { printf(" p=exc:%s", c_str(pe)); }
    else { printf(" p=%" PRId64 ",%ld,%d,%d", c_i64, ftell(T[pf]), (int)c_b, feof(T[pf]) ? 1 : 0); }
    if (a_fo isnt fo or a_fc isnt fc or a_bad isnt bad) { printf(" probe-touched-fopen-fclose"); }
  }
  int d = exc_depth();
  if (d isnt want_depth) { printf(" depth=%d", d - want_depth); }
  printf("\n");
  fflush(stdout);
  on = 0; if (ob) { ob[0] = 0; }
  arena_free();
}

/* ---- print / scan ---------------------------------------------------------------------- */
static void fmt_add(char* fmt, size_t cap, const char* s) {
  if (strlen(fmt) + strlen(s) + 1 > cap) { harness_bug("format too long"); }
  strcat(fmt, s);
}

static void op_print(int f, char** w, int n) {
  size_t cap = 64;
  for (int i = 0; i < n; i++) { cap += strlen(w[i]) + 4; }
  char* fmt = keep(calloc(1, cap));
  var* items = keep(calloc(n + 1, sizeof(var)));
  int na = 0;
  long tsum = 0; bool tfail = false;
  FILE* t = T[f];
  for (int i = 0; i < n; i++) {
    char* a = w[i];
    int r = 0;
    if (a[0] is 'l' and a[1] is ':') {
      char* s = (char*)keep(unhex(a + 2, NULL));
      if (strchr(s, '%')) { harness_bug("percent in literal"); }
      fmt_add(fmt, cap, s);
      if (t and not tfail) { r = fprintf(t, "%s", s); }
    } else if (a[0] is 'p' and a[1] is 0) {
      fmt_add(fmt, cap, "%%");
      if (t and not tfail) { r = fprintf(t, "%%"); }
    } else if ((a[0] is 'i' or a[0] is 'd') and a[1] is ':') {
      long v = strtol(a + 2, NULL, 10);
      fmt_add(fmt, cap, a[0] is 'i' ? "%$" : "%li");
      items[na++] = mk_int(v);
      if (t and not tfail) { r = fprintf(t, "%li", v); }
    } else if (a[0] is 'q' and a[1] is ':') {
      char* s = (char*)keep(unhex(a + 2, NULL));
      fmt_add(fmt, cap, "%$");
      items[na++] = mk_str(s);
      if (t and not tfail) { r = fprintf(t, "\"%s\"", s); }
    } else if (a[0] is 's' and a[1] is ':') {
      char* s = (char*)keep(unhex(a + 2, NULL));
      fmt_add(fmt, cap, "%s");
      items[na++] = mk_str(s);
      if (t and not tfail) { r = fprintf(t, "%s", s); }
    } else if ((a[0] is 'f' or a[0] is 'g') and a[1] is ':') {
      uint64_t bits = strtoull(a + 2, NULL, 16); double d; memcpy(&d, &bits, 8);
      fmt_add(fmt, cap, a[0] is 'f' ? "%$" : "%f");
      items[na++] = mk_flt(d);
      if (t and not tfail) { r = fprintf(t, "%f", d); }
    } else { harness_bug("bad print item"); }
    if (r < 0) { tfail = true; } else { tsum += r; }
  }
  items[na] = Terminal;
  var args = mk_tuple(items);
  c_int_ = 0;
  CELLO(c_int_ = print_to_with(F[f], 0, fmt, args));
  outf("r=%d", c_int_);
  if (t) { outf(" tr=%ld", tfail ? -1L : tsum); } else { outf(" tr=-"); }
}

static void out_val(var v) {
  var t = type_of(v);
  if (t is Int) { outf("i%" PRId64, ((struct Int*)v)->val); }
  else if (t is Float) { uint64_t b; memcpy(&b, v, 8); outf("f%016" PRIx64, b); }
  else if (t is String) { char* s = ((struct String*)v)->val; outf("s"); outhex(s, strlen(s)); }
  else { outf("?"); }
}

static void op_scan(int f, char** w, int n) {
  size_t cap = 64;
  for (int i = 0; i < n; i++) { cap += strlen(w[i]) + 4; }
  char* fmt = keep(calloc(1, cap));
  var* items = keep(calloc(n + 1, sizeof(var)));
  var targets[MAXW];            /* on the stack: visible to the collector */
  memset(targets, 0, sizeof targets);
  int na = 0;
  FILE* t = T[f];
  bool tfail = false; int tfail_at = -1;
  /* twin values */
  char* tv = keep(calloc(1, 64 + n * 300)); size_t tvn = 0;
  for (int i = 0; i < n; i++) {
    char* a = w[i];
    bool doit = t and not tfail;
    if (a[0] is 'l' and a[1] is ':') {
      char* s = (char*)keep(unhex(a + 2, NULL));
      if (strchr(s, '%')) { harness_bug("percent in literal"); }
      fmt_add(fmt, cap, s);
      if (doit) { fscanf(t, s); }
      continue;
    }
    if (a[0] is 'p' and a[1] is 0) {
      fmt_add(fmt, cap, "%%");
      if (doit) { fscanf(t, "%%"); }
      continue;
    }
    if (na) { tv[tvn++] = ','; }
    if (a[0] is 'i' or a[0] is 'd') {
      fmt_add(fmt, cap, a[0] is 'i' ? "%$" : "%li");
      CELLO(c_v = new(Int, $I(0)));
      if (exc) { harness_bug("new Int failed"); }
      targets[na] = c_v;
      long tmp = 0;
      if (doit) { int off = 0; int r = fscanf(t, "%li%n", &tmp, &off); if (r < 1) { tfail = true; tfail_at = na; tmp = 0; } }
      tvn += sprintf(tv + tvn, "i%ld", tmp);
    } else if (a[0] is 'q' or a[0] is 's') {
      fmt_add(fmt, cap, a[0] is 'q' ? "%$" : "%s");
      CELLO(c_v = new(String, $S("")); if (a[0] is 's') { resize(c_v, 100); });
      if (exc) { harness_bug("new String failed"); }
      targets[na] = c_v;
      char buf[128]; size_t bn = 0; buf[0] = 0;
      if (doit and a[0] is 's') {
        int off = 0; int r = fscanf(t, "%100s%n", buf, &off);
        if (r < 1) { tfail = true; tfail_at = na; buf[0] = 0; }
        bn = strlen(buf);
      } else if (doit) {
        int c = fgetc(t);
        if (c isnt '"') { tfail = true; tfail_at = na; }
        else {
          while (true) {
            c = fgetc(t);
            if (c is EOF) { tfail = true; tfail_at = na; break; }
            if (c is '"') { break; }
            if (bn < 100 and c isnt 0) { buf[bn++] = (char)c; }
          }
          buf[bn] = 0;
        }
      }
      tv[tvn++] = 's';
      if (bn is 0) { tv[tvn++] = '-'; }
      for (size_t k = 0; k < bn; k++) { tvn += sprintf(tv + tvn, "%02x", (unsigned char)buf[k]); }
    } else if (a[0] is 'f' or a[0] is 'g' or a[0] is 'G') {
      fmt_add(fmt, cap, a[0] is 'f' ? "%$" : a[0] is 'g' ? "%f" : "%lf");
      CELLO(c_v = new(Float, $F(0.0)));
      if (exc) { harness_bug("new Float failed"); }
      targets[na] = c_v;
      double d = 0.0;
      if (doit) {
        int r;
        if (a[0] is 'G') { r = fscanf(t, "%lf", &d); }
        else { float x = 0; r = fscanf(t, "%f", &x); d = x; }
        if (r < 1) { tfail = true; tfail_at = na; d = 0.0; }
      }
      uint64_t b; memcpy(&b, &d, 8);
      tvn += sprintf(tv + tvn, "f%016" PRIx64, b);
    } else { harness_bug("bad scan item"); }
    items[na] = targets[na];
    na++;
  }
  tv[tvn] = 0;
  items[na] = Terminal;
  var args = mk_tuple(items);
  c_int_ = 0;
  CELLO(c_int_ = scan_from_with(F[f], 0, fmt, args));
  var volatile e0 = exc;
  outf("r=%d v=", c_int_);
  if (na is 0) { outf("-"); }
  for (int i = 0; i < na; i++) { if (i) { outf(","); } out_val(targets[i]); }
  if (t) { outf(" tv=%s tfail=%d", na ? tv : "-", tfail_at); } else { outf(" tv=- tfail=-"); }
  for (int i = 0; i < na; i++) { CELLO(del(targets[i])); targets[i] = NULL; }
  exc = e0;
}

/* ---- the op interpreter ---------------------------------------------------------------- */
/* returns 0 when "end" was read, 1 when "endwith" was read */
static int run_block(int depth) {
  char* w[MAXW];
  while (true) {
    char* line = rd_line();
    if (line is NULL) { exit(0); }
    if (strcmp(line, "end") is 0) { return 0; }
    if (strcmp(line, "endwith") is 0) {
      if (depth is 0) { harness_bug("endwith outside with"); }
      return 1;
    }
    int n = split(line, w, MAXW);
    if (n is 0) { continue; }
    const char* op = w[0];
    #define OP(s) (strcmp(op, s) is 0)
    acct_reset(); exc = NULL; on = 0; want_depth = depth;

    if (OP("begin")) {
      probe_on = n > 1 ? atoi(w[1]) : 1;
      strcpy(dir, "/tmp/vfc20-XXXXXX");
      if (mkdtemp(dir) is NULL) { harness_bug("mkdtemp failed"); }
      for (int p = 0; p < NP; p++) {
        snprintf(cpath[p], sizeof cpath[p], "%s/c%d", dir, p);
        snprintf(tpath[p], sizeof tpath[p], "%s/t%d", dir, p);
      }
      outf("dir=%s bufsiz=%d", dir, (int)BUFSIZ);
      finish(-1);
      continue;
    }
    if (not dir[0]) { harness_bug("op before begin"); }

    if (OP("with")) {
      int f = fidx(w[1]); need(f);
      static volatile int ended[8]; static volatile int entered[8];
      if (depth >= 7) { harness_bug("with too deep"); }
      ended[depth] = -1; entered[depth] = 0;
      var volatile we = NULL;
      try {
        with (h in F[f]) {
          entered[depth] = 1;
          outf("with h=%s", h is F[f] ? "self" : "other");
          exc = NULL; want_depth = depth + 1; finish(-1);
          ended[depth] = run_block(depth + 1);
          acct_reset(); on = 0;
        }
      } catch (e) { we = e; }
      if (not entered[depth]) { harness_bug("with body never entered"); }
      if (ended[depth] isnt 1) { harness_bug("end inside with"); }
      exc = we; want_depth = depth;
      outf("endwith");
      if (not we and F[f] and HND(f)) { outf(" STILL-OPEN-AFTER-WITH"); }
      twin_close(f);
      finish(-1);
      continue;
    }

    if (OP("alloc")) {
      int f = fidx(w[1]);
      if (F[f] isnt NULL) { harness_bug("alloc on occupied slot"); }
      CELLO(c_v = new(File));
      if (not exc) { F[f] = c_v; }
      outf("open=%d", F[f] and HND(f) ? 1 : 0);
      finish(-1);
    }
    else if (OP("new")) {
      int f = fidx(w[1]); int p = pidx(w[2]);
      if (F[f] isnt NULL) { harness_bug("new on occupied slot"); }
      c_v = NULL;
      CELLO(c_v = new(File, $S(cpath[p]), $S(w[3])));
      if (not exc) { F[f] = c_v; }
      T[f] = __real_fopen(tpath[p], w[3]);
      outf("open=%d topen=%d", F[f] and HND(f) ? 1 : 0, T[f] ? 1 : 0);
      finish(f);
    }
    else if (OP("sopen")) {
      int f = fidx(w[1]); int p = pidx(w[2]); need(f);
      c_v = NULL;
      CELLO(c_v = sopen(F[f], $S(cpath[p]), $S(w[3])));
      twin_close(f);
      T[f] = __real_fopen(tpath[p], w[3]);
      outf("ret=%s open=%d topen=%d", exc ? "-" : c_v is F[f] ? "self" : "other", HND(f) ? 1 : 0, T[f] ? 1 : 0);
      finish(f);
    }
    else if (OP("swrite")) {
      int f = fidx(w[1]); need(f);
      size_t nb = 0; unsigned char* d;
      if (strcmp(w[2], "-") is 0) { d = keep(calloc(1, 1)); } else { d = keep(unhex(w[2], &nb)); }
      c_sz = 0;
      CELLO(c_sz = swrite(F[f], d, nb));
      outf("r=%zu", c_sz);
      if (T[f]) { size_t tr = fwrite(d, nb, 1, T[f]); outf(" tr=%zu", tr); } else { outf(" tr=-"); }
      finish(f);
    }
    else if (OP("sread")) {
      int f = fidx(w[1]); need(f);
      size_t nb = (size_t)strtoull(w[2], NULL, 10);
      unsigned char* cb = keep(malloc(nb + 1)); unsigned char* tb = keep(malloc(nb + 1));
      memset(cb, SENT, nb + 1); memset(tb, SENT, nb + 1);
      c_sz = 0;
      CELLO(c_sz = sread(F[f], cb, nb));
      outf("r=%zu", c_sz);
      if (T[f]) {
        size_t tr = fread(tb, nb, 1, T[f]);
        outf(" tr=%zu terr=%d teof=%d", tr, ferror(T[f]) ? 1 : 0, feof(T[f]) ? 1 : 0);
      } else { outf(" tr=- terr=- teof=-"); }
      outf(" data="); outhex(cb, nb);
      if (cb[nb] isnt SENT) { outf(" OVERRUN"); }
      if (T[f]) {
        if (memcmp(cb, tb, nb) is 0) { outf(" tdata=="); } else { outf(" tdata="); outhex(tb, nb); }
      } else { outf(" tdata=x"); }
      finish(f);
    }
    else if (OP("sseek")) {
      int f = fidx(w[1]); need(f);
      int64_t off = strtoll(w[2], NULL, 10); int org = atoi(w[3]);
      int origin = org is 0 ? SEEK_SET : org is 1 ? SEEK_CUR : SEEK_END;
      CELLO(sseek(F[f], off, origin));
      if (T[f]) { int tr = fseek(T[f], (long)off, origin); outf("tr=%d", tr); } else { outf("tr=-"); }
      finish(f);
    }
    else if (OP("stell")) {
      int f = fidx(w[1]); need(f);
      c_i64 = -7;
      CELLO(c_i64 = stell(F[f]));
      outf("r=%" PRId64, c_i64);
      if (T[f]) { outf(" tr=%ld", ftell(T[f])); } else { outf(" tr=-"); }
      finish(f);
    }
    else if (OP("seof")) {
      int f = fidx(w[1]); need(f);
      c_b = false;
      CELLO(c_b = seof(F[f]));
      outf("r=%d", (int)c_b);
      if (T[f]) { outf(" tr=%d", feof(T[f]) ? 1 : 0); } else { outf(" tr=-"); }
      finish(f);
    }
    else if (OP("sflush")) {
      int f = fidx(w[1]); need(f);
      CELLO(sflush(F[f]));
      if (T[f]) { outf("tr=%d", fflush(T[f])); } else { outf("tr=-"); }
      finish(f);
    }
    else if (OP("print")) { int f = fidx(w[1]); need(f); op_print(f, w + 2, n - 2); finish(f); }
    else if (OP("scan")) { int f = fidx(w[1]); need(f); op_scan(f, w + 2, n - 2); finish(f); }
    else if (OP("sclose")) {
      int f = fidx(w[1]); need(f);
      CELLO(sclose(F[f]));
      twin_close(f);
      outf("open=%d", HND(f) ? 1 : 0);
      finish(-1);
    }
    else if (OP("del")) {
      int f = fidx(w[1]); need(f);
      var x = F[f]; F[f] = NULL;
      CELLO(del(x));
      twin_close(f);
      finish(-1);
    }
    else { harness_bug("unknown op"); }
    #undef OP
  }
}

static void dump_file(const char* path) {
  int fd = open(path, O_RDONLY);
  if (fd < 0) { outf("absent"); return; }
  size_t cap = 1 << 17, n = 0; unsigned char* b = malloc(cap);
  while (true) {
    if (n is cap) { cap *= 2; b = realloc(b, cap); }
    ssize_t k = read(fd, b + n, cap - n);
    if (k <= 0) { break; }
    n += k;
  }
  close(fd);
  outhex(b, n);
  free(b);
}

int main(int argc, char** argv) {
  var files[NF];
  memset(files, 0, sizeof files);
  F = files;
  int cases = 0;
  while (true) {
    int r = run_block(0);
    (void)r;
    /* case over */
    for (int f = 0; f < NF; f++) {
      if (F[f] isnt NULL) {
        acct_reset(); on = 0;
        var x = F[f]; F[f] = NULL;
        CELLO(del(x));
        outf("final del %d", f);
        finish(-1);
      }
      twin_close(f);
    }
    printf("final acct opens=%d closes=%d still_open=%d bad=%d\n", t_fo, t_fc, still_open(), t_bad);
    if (dir[0]) {
      for (int p = 0; p < NP; p++) {
        on = 0; outf("final file %d c=", p); dump_file(cpath[p]);
        size_t mark = on; outf(" t="); size_t tstart = on; dump_file(tpath[p]);
        /* shorten identical twin content to '=' */
        size_t cstart = strlen("final file 0 c=");
        if (mark - cstart is on - tstart and memcmp(ob + cstart, ob + tstart, on - tstart) is 0) {
          on = tstart; ob[on] = 0; outf("=");
        }
        printf("%s\n", ob);
        unlink(cpath[p]); unlink(tpath[p]);
      }
      rmdir(dir);
      dir[0] = 0;
    }
    on = 0; if (ob) { ob[0] = 0; }
    for (int i = 0; i < ntab; i++) { if (tab[i].open) { __real_fclose(tab[i].p); } }
    ntab = 0; t_fo = t_fc = t_bad = 0;
    printf("done\n"); fflush(stdout);
    if (++cases >= 2000) { break; }
  }
  return 0;
}
