/* ex_type: executor for C08 (type-class dispatch returns exactly what the type declares).
 *
 * The long-lived parent never calls into Cello: it only reads a case (lines up to "end"), forks a
 * child that executes it and prints one answer line per op, and then prints "done".  Every case
 * therefore starts from process-wide *cold* caches (cache slots, memoised class pointers, header
 * types of static type objects are all written lazily by the library).
 *
 * Ops
 *   static <Type> order=<cold|warm|others-first>
 *        every class x every entry point for one built-in type, each result compared with an
 *        independent scan of the raw type record (public layout of Cello.h only, by class name).
 *        cold / others-first: one forked grandchild per single lookup; warm: one grandchild.
 *   rt <name> <size>            start the description of a run-time type
 *   f <name> <nmembers> <h|r>   define a made-up class object (hand-built static record | new_raw(Type))
 *   i <class> <maskhex>         append an instance of <class>; member j is a trap function iff bit j
 *   mk                          new(Type, name, size, instances...)  (+ an empty twin of the same name)
 *   ri <class> <maskhex>        append an instance to the list of the next re-declaration (fresh object,
 *                               members from the trap set of that declaration)
 *   redeclare <name> <size>     construct_with(T, name, size, pending instances...) on the SAME type object;
 *                               later answers "#k" index the new list, "old" = an instance of an earlier one,
 *                               ",STALE=n" = n calls reached a trap function of an earlier declaration
 *   q  <E> <class> <m>          lookup on the run-time type; E in I T P Q M N R S =
 *                               instance type_instance implements type_implements method_at_offset
 *                               type_method_at_offset implements_method_at_offset type_implements_method_at_offset
 *   sq <E> <Type> <class> <m>   same lookup on a built-in type, answer relative to the raw-record oracle
 *   oq <E> <Type> <class> <m> [-]  the built-in type OBJECT itself as receiver (E in I P M R, or O = type_of); oracle = Type's
 *                               record; ",v=1" when nothing had looked at that object before in this process ("-": not reported)
 *   aq <E> <class> <m>          lookup on the run-time type with an ALIAS of the class (another class object of that name)
 *   fb <class> <m>              public function that has a default when the member is not declared (see exec_api)
 *   api <class> <m>             call the public function that dispatches to member m (len, push, ...)
 *   cast <x|s:Type> <self|twin|name>
 *   tname | tsize               c_str(T) / size(T)
 *   tq <q|sq|cast ...>          store an op for the thread phase
 *   threads <n> <rot>           mk, then n Cello Threads released together run all stored ops
 *                               (thread k starts at op k*rot); one answer line with every thread's tokens
 *
 * Answers never contain addresses: pointers are printed as "#k" (k-th instance the harness itself
 * passed to the constructor), "s" (same as oracle), "n" (NULL) or "o" (anything else).
 */
#include "common.h"
#undef main
#include <sys/wait.h>
#include <sched.h>

#define NCLS 30
#define MAXMEM 8

static bool in_child = false;
/* harness inconsistency: never a verdict about the library */
static void bug(const char* what) {
  printf("HARNESS-BUG %s\n", what);
  fflush(stdout);
  if (in_child) { _exit(3); }
  printf("done\n"); fflush(stdout);
  exit(3);
}

struct ClsInfo { const char* name; var* obj; int nmem; const char* mn[MAXMEM]; };
#define C(N, ...) { #N, &N, (int)(sizeof(struct N) / sizeof(var)), { __VA_ARGS__ } }
static struct ClsInfo CLS[NCLS] = {
  C(Doc, "name", "brief", "description", "definition", "examples", "methods"),
  C(Help, "help_to"), C(Cast, "cast"), C(Size, "size"), C(Alloc, "alloc", "dealloc"),
  C(New, "construct_with", "destruct"), C(Copy, "copy"), C(Assign, "assign"), C(Swap, "swap"),
  C(Cmp, "cmp"), C(Hash, "hash"), C(Len, "len"),
  C(Iter, "iter_init", "iter_next", "iter_last", "iter_prev", "iter_type"),
  C(Push, "push", "pop", "push_at", "pop_at"), C(Concat, "concat", "append"),
  C(Get, "get", "set", "mem", "rem", "key_type", "val_type"), C(Sort, "sort_by"), C(Resize, "resize"),
  C(C_Str, "c_str"), C(C_Int, "c_int"), C(C_Float, "c_float"),
  C(Stream, "sopen", "sclose", "sseek", "stell", "sflush", "seof", "sread", "swrite"),
  C(Pointer, "ref", "deref"), C(Call, "call_with"), C(Format, "format_to", "format_from"),
  C(Show, "show", "look"), C(Current, "current"), C(Start, "start", "stop", "join", "running"),
  C(Lock, "lock", "unlock", "trylock"), C(Mark, "mark")
};
#undef C
enum { K_Doc, K_Help, K_Cast, K_Size, K_Alloc, K_New, K_Copy, K_Assign, K_Swap, K_Cmp, K_Hash, K_Len, K_Iter,
       K_Push, K_Concat, K_Get, K_Sort, K_Resize, K_C_Str, K_C_Int, K_C_Float, K_Stream, K_Pointer, K_Call,
       K_Format, K_Show, K_Current, K_Start, K_Lock, K_Mark };


/* ---- user-declared static types and classes (Cello / CelloEmpty / Instance macros, header-less instances) ----
 * UCls, UCl: made-up classes (one name a prefix of the other); UT0: no instances; UT1: user classes + built-in ones,
 * one instance with every member empty; UTAll: 29 built-in classes in reverse order with mixed empty members (Cast is
 * left out: a type that overrides cast() is outside the default cast rule), then a user class.  Nothing ever calls
 * these members: the matrix only compares pointers with the raw record. */
static void ut_f(void) { }
#define UF ((void*)ut_f)
struct UCls { void (*f)(void); void (*g)(void); };
struct UCl { void (*f)(void); };
struct UT0 { char c; };
struct UT1 { int64_t a; };
struct UTAll { int64_t a, b; };
static var UCls = Cello(UCls);
static var UCl = Cello(UCl);
static var UT0 = CelloEmpty(UT0);
static var UT1 = Cello(UT1,
  Instance(UCls, UF, NULL), Instance(Cmp, UF), Instance(Len, NULL), Instance(UCl, UF), Instance(Show, NULL, UF));
static var UTAll = Cello(UTAll,
  Instance(Mark, UF),
  Instance(Lock, UF, UF, NULL),
  Instance(Start, NULL, UF, UF, NULL),
  Instance(Current, UF),
  Instance(Show, UF, UF),
  Instance(Format, NULL, UF),
  Instance(Call, UF),
  Instance(Pointer, UF, UF),
  Instance(Stream, NULL, UF, UF, NULL, UF, UF, NULL, UF),
  Instance(C_Float, UF),
  Instance(C_Int, UF),
  Instance(C_Str, NULL),
  Instance(Resize, UF),
  Instance(Sort, UF),
  Instance(Get, NULL, UF, UF, NULL, UF, UF),
  Instance(Concat, UF, NULL),
  Instance(Push, UF, UF, NULL, UF),
  Instance(Iter, NULL, UF, UF, NULL, UF),
  Instance(Len, UF),
  Instance(Hash, UF),
  Instance(Cmp, NULL),
  Instance(Swap, UF),
  Instance(Assign, UF),
  Instance(Copy, NULL),
  Instance(New, UF, NULL),
  Instance(Alloc, UF, UF),
  Instance(Size, NULL),
  Instance(Help, UF),
  Instance(Doc, NULL, UF, UF, NULL, UF, UF),
  Instance(UCls, NULL, UF));
#undef UF

struct TypeInfo { const char* name; var* t; };
#define T(N) { #N, &N }
static struct TypeInfo TYPES[] = {
  T(Type), T(Tuple), T(Ref), T(Box), T(Int), T(Float), T(String), T(Tree), T(List), T(Array), T(Table), T(Range),
  T(Slice), T(Zip), T(Filter), T(Map), T(Terminal), T(_), T(File), T(Mutex), T(Thread), T(Process), T(Function),
  T(Exception),
#ifndef CELLO_NGC
  T(GC),
#endif
  T(Doc), T(Help), T(Cast), T(Size), T(Alloc), T(New), T(Copy), T(Assign), T(Swap), T(Cmp), T(Hash), T(Len),
  T(Iter), T(Push), T(Concat), T(Get), T(Sort), T(Resize), T(C_Str), T(C_Int), T(C_Float), T(Stream), T(Pointer),
  T(Call), T(Format), T(Show), T(Current), T(Start), T(Lock), T(Mark),
  T(IOError), T(KeyError), T(BusyError), T(TypeError), T(ValueError), T(ClassError), T(FormatError),
  T(ResourceError), T(OutOfMemoryError), T(IndexOutOfBoundsError), T(SegmentationError), T(ProgramAbortedError),
  T(DivisionByZeroError), T(IllegalInstructionError), T(ProgramInterruptedError), T(ProgramTerminationError),
  /* user-declared static types and classes (below): looked up like the built-in ones, same raw-record oracle */
  T(UCls), T(UCl), T(UT0), T(UT1), T(UTAll)
};
#undef T
#define NTYPES ((int)(sizeof TYPES / sizeof TYPES[0]))
#ifndef CELLO_NGC
#define NTYPES_EXPECTED 76
#else
#define NTYPES_EXPECTED 75
#endif

/* ---- oracle: raw record scan by class name, public layout only, no Cello call ------------------- */
#define MAXTRIP 64
struct Ora { var inst; unsigned mask; };
static struct Ora ORA[80][NCLS];
static struct Type SNAP[80][MAXTRIP]; static int NSNAP[80];
static var SOBJ[80];                       /* an object whose header says "my type is TYPES[i]" */

static struct Type* rec_triples(var T) {
  struct Type* t = (struct Type*)((var*)T + CELLO_CACHE_NUM);
  if (t[0].name is NULL or strcmp(t[0].name, "__Name") isnt 0 or t[1].name is NULL or strcmp(t[1].name, "__Size") isnt 0) {
    bug("type record layout is not cache,__Name,__Size,triples");
  }
  return t + 2;
}
static var ora_scan(var T, const char* cname) {
  for (struct Type* t = rec_triples(T); t->name; t++) { if (strcmp(t->name, cname) is 0) { return t->inst; } }
  return NULL;
}
static unsigned members_mask(var inst, int nmem) {
  unsigned m = 0;
  for (int j = 0; j < nmem; j++) { if (((var*)inst)[j] isnt NULL) { m |= 1u << j; } }
  return m;
}
static var fab(var type, size_t sz) {
  char* b = calloc(1, sizeof(struct Header) + sz + 8);
  return header_init(b, type, AllocStack);       /* header_init only fills the header */
}
static void snapshot(void) {
  if (NTYPES isnt NTYPES_EXPECTED) { bug("type table must list 71 built-in (70 without collector) + 5 user objects"); }
  for (int i = 0; i < NTYPES; i++) {
    var T = *TYPES[i].t;
    struct Type* t = rec_triples(T); int n = 0;
    for (; t[n].name; n++) { if (n >= MAXTRIP - 1) { bug("too many triples"); } SNAP[i][n] = t[n]; }
    NSNAP[i] = n;
    for (int c = 0; c < NCLS; c++) {
      var inst = ora_scan(T, CLS[c].name);
      ORA[i][c].inst = inst;
      ORA[i][c].mask = inst ? members_mask(inst, CLS[c].nmem) : 0;
    }
    SOBJ[i] = fab(T, 256);
  }
}
static int record_intact(int i) {
  struct Type* t = rec_triples(*TYPES[i].t); int n = 0;
  for (; t[n].name; n++) {
    if (n >= NSNAP[i] or t[n].name isnt SNAP[i][n].name or t[n].inst isnt SNAP[i][n].inst) { return 0; }
  }
  return n is NSNAP[i];
}

/* ---- trap functions: every member of every built-in class, with the member's real signature.
 * NGEN complete sets: the instances of declaration g (0 = mk, g-th redeclare) use set g % NGEN, so a call that
 * reaches a function of an earlier declaration of the same type is recognised (stale_hits). -------------- */
#define NGEN 3
static __thread int trap_calls = 0;
static __thread int trap_last = -1;
static __thread int trap_gen = -1;
static __thread int stale_hits = 0;
static int cur_gen = 0;
#define HIT(g, k, m) do { trap_calls++; trap_last = (k) * MAXMEM + (m); trap_gen = (g); \
                          if ((g) isnt cur_gen % NGEN) { stale_hits++; } } while (0)
static struct Example trap_examples[] = { { NULL, NULL } };
static struct Method trap_methods[] = { { NULL, NULL, NULL } };
static char trap_str[] = "trap";
static var TRAPS[NGEN][NCLS][MAXMEM];

#define DEF_TRAPS(G) \
  static const char* t##G##_doc0(void) { HIT(G, K_Doc, 0); return trap_str; } \
  static const char* t##G##_doc1(void) { HIT(G, K_Doc, 1); return trap_str; } \
  static const char* t##G##_doc2(void) { HIT(G, K_Doc, 2); return trap_str; } \
  static const char* t##G##_doc3(void) { HIT(G, K_Doc, 3); return trap_str; } \
  static struct Example* t##G##_doc4(void) { HIT(G, K_Doc, 4); return trap_examples; } \
  static struct Method* t##G##_doc5(void) { HIT(G, K_Doc, 5); return trap_methods; } \
  static int t##G##_help0(var a, var b, int c) { HIT(G, K_Help, 0); return c; } \
  static var t##G##_cast0(var a, var b) { HIT(G, K_Cast, 0); return a; } \
  static size_t t##G##_size0(void) { HIT(G, K_Size, 0); return 4242; } \
  static var t##G##_alloc0(void) { HIT(G, K_Alloc, 0); return NULL; } \
  static void t##G##_alloc1(var a) { HIT(G, K_Alloc, 1); } \
  static void t##G##_new0(var a, var b) { HIT(G, K_New, 0); } \
  static void t##G##_new1(var a) { HIT(G, K_New, 1); } \
  static var t##G##_copy0(var a) { HIT(G, K_Copy, 0); return a; } \
  static void t##G##_assign0(var a, var b) { HIT(G, K_Assign, 0); } \
  static void t##G##_swap0(var a, var b) { HIT(G, K_Swap, 0); } \
  static int t##G##_cmp0(var a, var b) { HIT(G, K_Cmp, 0); return 0; } \
  static uint64_t t##G##_hash0(var a) { HIT(G, K_Hash, 0); return 0; } \
  static size_t t##G##_len0(var a) { HIT(G, K_Len, 0); return 7; } \
  static var t##G##_iter0(var a) { HIT(G, K_Iter, 0); return Terminal; } \
  static var t##G##_iter1(var a, var b) { HIT(G, K_Iter, 1); return Terminal; } \
  static var t##G##_iter2(var a) { HIT(G, K_Iter, 2); return Terminal; } \
  static var t##G##_iter3(var a, var b) { HIT(G, K_Iter, 3); return Terminal; } \
  static var t##G##_iter4(var a) { HIT(G, K_Iter, 4); return Int; } \
  static void t##G##_push0(var a, var b) { HIT(G, K_Push, 0); } \
  static void t##G##_push1(var a) { HIT(G, K_Push, 1); } \
  static void t##G##_push2(var a, var b, var c) { HIT(G, K_Push, 2); } \
  static void t##G##_push3(var a, var b) { HIT(G, K_Push, 3); } \
  static void t##G##_concat0(var a, var b) { HIT(G, K_Concat, 0); } \
  static void t##G##_concat1(var a, var b) { HIT(G, K_Concat, 1); } \
  static var t##G##_get0(var a, var b) { HIT(G, K_Get, 0); return NULL; } \
  static void t##G##_get1(var a, var b, var c) { HIT(G, K_Get, 1); } \
  static bool t##G##_get2(var a, var b) { HIT(G, K_Get, 2); return false; } \
  static void t##G##_get3(var a, var b) { HIT(G, K_Get, 3); } \
  static var t##G##_get4(var a) { HIT(G, K_Get, 4); return Int; } \
  static var t##G##_get5(var a) { HIT(G, K_Get, 5); return Int; } \
  static void t##G##_sort0(var a, bool (*f)(var, var)) { HIT(G, K_Sort, 0); } \
  static void t##G##_resize0(var a, size_t n) { HIT(G, K_Resize, 0); } \
  static char* t##G##_cstr0(var a) { HIT(G, K_C_Str, 0); return trap_str; } \
  static int64_t t##G##_cint0(var a) { HIT(G, K_C_Int, 0); return 7; } \
  static double t##G##_cfloat0(var a) { HIT(G, K_C_Float, 0); return 7.0; } \
  static var t##G##_stream0(var a, var b, var c) { HIT(G, K_Stream, 0); return a; } \
  static void t##G##_stream1(var a) { HIT(G, K_Stream, 1); } \
  static void t##G##_stream2(var a, int64_t b, int c) { HIT(G, K_Stream, 2); } \
  static int64_t t##G##_stream3(var a) { HIT(G, K_Stream, 3); return 0; } \
  static void t##G##_stream4(var a) { HIT(G, K_Stream, 4); } \
  static bool t##G##_stream5(var a) { HIT(G, K_Stream, 5); return true; } \
  static size_t t##G##_stream6(var a, void* b, size_t c) { HIT(G, K_Stream, 6); return 0; } \
  static size_t t##G##_stream7(var a, void* b, size_t c) { HIT(G, K_Stream, 7); return 0; } \
  static void t##G##_pointer0(var a, var b) { HIT(G, K_Pointer, 0); } \
  static var t##G##_pointer1(var a) { HIT(G, K_Pointer, 1); return NULL; } \
  static var t##G##_call0(var a, var b) { HIT(G, K_Call, 0); return NULL; } \
  static int t##G##_format0(var a, int b, const char* c, va_list d) { HIT(G, K_Format, 0); return b; } \
  static int t##G##_format1(var a, int b, const char* c, va_list d) { HIT(G, K_Format, 1); return b; } \
  static int t##G##_show0(var a, var b, int c) { HIT(G, K_Show, 0); return c; } \
  static int t##G##_show1(var a, var b, int c) { HIT(G, K_Show, 1); return c; } \
  static var t##G##_current0(void) { HIT(G, K_Current, 0); return NULL; } \
  static void t##G##_start0(var a) { HIT(G, K_Start, 0); } \
  static void t##G##_start1(var a) { HIT(G, K_Start, 1); } \
  static void t##G##_start2(var a) { HIT(G, K_Start, 2); } \
  static bool t##G##_start3(var a) { HIT(G, K_Start, 3); return false; } \
  static void t##G##_lock0(var a) { HIT(G, K_Lock, 0); } \
  static void t##G##_lock1(var a) { HIT(G, K_Lock, 1); } \
  static bool t##G##_lock2(var a) { HIT(G, K_Lock, 2); return true; } \
  static void t##G##_mark0(var a, var b, void (*f)(var, void*)) { HIT(G, K_Mark, 0); } \
  static void init_traps_##G(void) { \
    TRAPS[G][K_Doc][0] = (var)t##G##_doc0; \
    TRAPS[G][K_Doc][1] = (var)t##G##_doc1; \
    TRAPS[G][K_Doc][2] = (var)t##G##_doc2; \
    TRAPS[G][K_Doc][3] = (var)t##G##_doc3; \
    TRAPS[G][K_Doc][4] = (var)t##G##_doc4; \
    TRAPS[G][K_Doc][5] = (var)t##G##_doc5; \
    TRAPS[G][K_Help][0] = (var)t##G##_help0; \
    TRAPS[G][K_Cast][0] = (var)t##G##_cast0; \
    TRAPS[G][K_Size][0] = (var)t##G##_size0; \
    TRAPS[G][K_Alloc][0] = (var)t##G##_alloc0; \
    TRAPS[G][K_Alloc][1] = (var)t##G##_alloc1; \
    TRAPS[G][K_New][0] = (var)t##G##_new0; \
    TRAPS[G][K_New][1] = (var)t##G##_new1; \
    TRAPS[G][K_Copy][0] = (var)t##G##_copy0; \
    TRAPS[G][K_Assign][0] = (var)t##G##_assign0; \
    TRAPS[G][K_Swap][0] = (var)t##G##_swap0; \
    TRAPS[G][K_Cmp][0] = (var)t##G##_cmp0; \
    TRAPS[G][K_Hash][0] = (var)t##G##_hash0; \
    TRAPS[G][K_Len][0] = (var)t##G##_len0; \
    TRAPS[G][K_Iter][0] = (var)t##G##_iter0; \
    TRAPS[G][K_Iter][1] = (var)t##G##_iter1; \
    TRAPS[G][K_Iter][2] = (var)t##G##_iter2; \
    TRAPS[G][K_Iter][3] = (var)t##G##_iter3; \
    TRAPS[G][K_Iter][4] = (var)t##G##_iter4; \
    TRAPS[G][K_Push][0] = (var)t##G##_push0; \
    TRAPS[G][K_Push][1] = (var)t##G##_push1; \
    TRAPS[G][K_Push][2] = (var)t##G##_push2; \
    TRAPS[G][K_Push][3] = (var)t##G##_push3; \
    TRAPS[G][K_Concat][0] = (var)t##G##_concat0; \
    TRAPS[G][K_Concat][1] = (var)t##G##_concat1; \
    TRAPS[G][K_Get][0] = (var)t##G##_get0; \
    TRAPS[G][K_Get][1] = (var)t##G##_get1; \
    TRAPS[G][K_Get][2] = (var)t##G##_get2; \
    TRAPS[G][K_Get][3] = (var)t##G##_get3; \
    TRAPS[G][K_Get][4] = (var)t##G##_get4; \
    TRAPS[G][K_Get][5] = (var)t##G##_get5; \
    TRAPS[G][K_Sort][0] = (var)t##G##_sort0; \
    TRAPS[G][K_Resize][0] = (var)t##G##_resize0; \
    TRAPS[G][K_C_Str][0] = (var)t##G##_cstr0; \
    TRAPS[G][K_C_Int][0] = (var)t##G##_cint0; \
    TRAPS[G][K_C_Float][0] = (var)t##G##_cfloat0; \
    TRAPS[G][K_Stream][0] = (var)t##G##_stream0; \
    TRAPS[G][K_Stream][1] = (var)t##G##_stream1; \
    TRAPS[G][K_Stream][2] = (var)t##G##_stream2; \
    TRAPS[G][K_Stream][3] = (var)t##G##_stream3; \
    TRAPS[G][K_Stream][4] = (var)t##G##_stream4; \
    TRAPS[G][K_Stream][5] = (var)t##G##_stream5; \
    TRAPS[G][K_Stream][6] = (var)t##G##_stream6; \
    TRAPS[G][K_Stream][7] = (var)t##G##_stream7; \
    TRAPS[G][K_Pointer][0] = (var)t##G##_pointer0; \
    TRAPS[G][K_Pointer][1] = (var)t##G##_pointer1; \
    TRAPS[G][K_Call][0] = (var)t##G##_call0; \
    TRAPS[G][K_Format][0] = (var)t##G##_format0; \
    TRAPS[G][K_Format][1] = (var)t##G##_format1; \
    TRAPS[G][K_Show][0] = (var)t##G##_show0; \
    TRAPS[G][K_Show][1] = (var)t##G##_show1; \
    TRAPS[G][K_Current][0] = (var)t##G##_current0; \
    TRAPS[G][K_Start][0] = (var)t##G##_start0; \
    TRAPS[G][K_Start][1] = (var)t##G##_start1; \
    TRAPS[G][K_Start][2] = (var)t##G##_start2; \
    TRAPS[G][K_Start][3] = (var)t##G##_start3; \
    TRAPS[G][K_Lock][0] = (var)t##G##_lock0; \
    TRAPS[G][K_Lock][1] = (var)t##G##_lock1; \
    TRAPS[G][K_Lock][2] = (var)t##G##_lock2; \
    TRAPS[G][K_Mark][0] = (var)t##G##_mark0; \
  }
DEF_TRAPS(0)
DEF_TRAPS(1)
DEF_TRAPS(2)
static void t_filler(void) { HIT(NGEN, NCLS, 0); }     /* members of made-up classes: nothing may call them */

static void init_traps(void) {
  init_traps_0(); init_traps_1(); init_traps_2();
  for (int g = 0; g < NGEN; g++) { for (int k = 0; k < NCLS; k++) { for (int m = 0; m < CLS[k].nmem; m++) {
    if (TRAPS[g][k][m] is NULL) { bug("trap table incomplete"); } } } }
}

/* ---- one lookup through one public entry point ----------------------------------------------------- */
struct Res { int kind; var ptr; int b; char exc[48]; };       /* kind 0 pointer, 1 bool, 2 exception */

static void raw_entry(char E, var x, var T, var cls, size_t off, const char* mn, var volatile* p, int volatile* b) {
  switch (E) {
    case 'I': *p = instance(x, cls); break;
    case 'T': *p = type_instance(T, cls); break;
    case 'P': *b = implements(x, cls) ? 1 : 0; break;
    case 'Q': *b = type_implements(T, cls) ? 1 : 0; break;
    case 'M': *p = method_at_offset(x, cls, off, mn); break;
    case 'N': *p = type_method_at_offset(T, cls, off, mn); break;
    case 'R': *b = implements_method_at_offset(x, cls, off) ? 1 : 0; break;
    case 'S': *b = type_implements_method_at_offset(T, cls, off) ? 1 : 0; break;
    default: bug("bad entry point");
  }
}
static struct Res entry(char E, var x, var T, var cls, int m, const char* mn, bool notry) {
  struct Res r; memset(&r, 0, sizeof r);
  size_t off = (size_t)m * sizeof(var);
  var volatile p = NULL; int volatile b = 0; var volatile ex = NULL;
  if (notry) { raw_entry(E, x, T, cls, off, mn, &p, &b); }
  else { try { raw_entry(E, x, T, cls, off, mn, &p, &b); } catch (e) { ex = e; } }
  if (ex) { r.kind = 2; snprintf(r.exc, sizeof r.exc, "%s", c_str(ex)); }
  else if (E is 'P' or E is 'Q' or E is 'R' or E is 'S') { r.kind = 1; r.b = b; }
  else { r.kind = 0; r.ptr = p; }
  return r;
}

/* ---- static matrix --------------------------------------------------------------------------------- */
static char static_char(struct Res r, var oracle) {
  if (r.kind is 2) { return strcmp(r.exc, "ClassError") is 0 ? 'C' : 'E'; }
  if (r.kind is 1) { return r.b ? '1' : '0'; }
  if (r.ptr is NULL) { return 'n'; }
  return r.ptr is oracle ? 's' : 'o';
}
static char static_lookup(int ti, int c, char E, int m, bool cold) {
  struct Ora* o = &ORA[ti][c];
  /* a lookup the oracle expects to succeed is made outside try so that nothing at all ran before it */
  bool notry = cold and (E is 'M' or E is 'N') and o->inst and ((o->mask >> m) & 1);
  if (E isnt 'M' and E isnt 'N') { notry = true; }
  return static_char(entry(E, SOBJ[ti], *TYPES[ti].t, *CLS[c].obj, m, CLS[c].mn[m], notry), o->inst);
}

struct IsoArg { int what; int ti, c, m; char E; bool others; };
static size_t iso_body(struct IsoArg* a, char* out, size_t cap);

/* run iso_body in a forked grandchild; "D" if it died */
static size_t iso(struct IsoArg* a, char* out, size_t cap) {
  int fd[2];
  fflush(stdout);
  if (pipe(fd) isnt 0) { bug("pipe"); }
  pid_t p = fork();
  if (p < 0) { bug("fork"); }
  if (p is 0) {
    close(fd[0]); alarm(20);
    char* buf = malloc(cap);
    size_t n = iso_body(a, buf, cap);
    size_t w = 0;
    while (w < n) { ssize_t k = write(fd[1], buf + w, n - w); if (k <= 0) { _exit(9); } w += (size_t)k; }
    _exit(0);
  }
  close(fd[1]);
  size_t n = 0;
  while (n < cap) { ssize_t k = read(fd[0], out + n, cap - n); if (k <= 0) { break; } n += (size_t)k; }
  close(fd[0]);
  int st = 0; waitpid(p, &st, 0);
  if (not WIFEXITED(st) or WEXITSTATUS(st) isnt 0 or n is 0) { out[0] = 'D'; n = 1; }
  return n;
}

static const char ENTRY4[] = "ITPQ";
static const char ENTRYM[] = "MNRS";

static size_t warm_line(int ti, char* out, size_t cap) {
  size_t n = 0;
  char first[NCLS + 1];
  for (int c = 0; c < NCLS; c++) { first[c] = static_lookup(ti, c, 'I', 0, false); }
  for (int c = 0; c < NCLS; c++) {
    n += snprintf(out + n, cap - n, " | %s d=%d k=%x W=%c", CLS[c].name, ORA[ti][c].inst ? 1 : 0, ORA[ti][c].mask, first[c]);
    for (int e = 0; e < 4; e++) { n += snprintf(out + n, cap - n, " %c=%c", ENTRY4[e], static_lookup(ti, c, ENTRY4[e], 0, false)); }
    for (int e = 0; e < 4; e++) {
      n += snprintf(out + n, cap - n, " %c=", ENTRYM[e]);
      for (int m = 0; m < CLS[c].nmem; m++) { out[n++] = static_lookup(ti, c, ENTRYM[e], m, false); }
    }
  }
  n += snprintf(out + n, cap - n, " | rec=%d", record_intact(ti));
  return n;
}

static size_t iso_body(struct IsoArg* a, char* out, size_t cap) {
  int ti = a->ti; var T = *TYPES[ti].t; var x = SOBJ[ti];
  if (a->what is 0) {                              /* one isolated lookup */
    if (a->others) {
      for (int c = 0; c < NCLS; c++) {
        if (c is a->c) { continue; }
        instance(x, *CLS[c].obj); type_implements(T, *CLS[c].obj);
      }
    }
    out[0] = static_lookup(ti, a->c, a->E, a->m, true);
    return 1;
  }
  if (a->what is 1) { out[0] = (type_of(T) is Type) ? '1' : '0'; return 1; }   /* header of a static type object */
  if (a->what is 2) {                              /* cast to own type, to two other types */
    /* (the Terminal object cannot be named in an exception message - known finding - so it is never the target) */
    var nxt = *TYPES[(ti + 1) % NTYPES].t;
    if (nxt is Terminal) { nxt = *TYPES[(ti + 2) % NTYPES].t; }
    var others[2] = { nxt, T is Type ? Int : Type };
    var volatile r = NULL; var volatile ex = NULL;
    try { r = cast(x, T); } catch (e) { ex = e; }
    out[0] = ex ? (strcmp(c_str(ex), "ValueError") is 0 ? 'V' : 'E') : (r is x ? 's' : 'o');
    for (int i = 0; i < 2; i++) {
      r = NULL; ex = NULL;
      try { r = cast(x, others[i]); } catch (e) { ex = e; }
      out[1 + i] = ex ? (strcmp(c_str(ex), "ValueError") is 0 ? 'V' : 'E') : (r is x ? 's' : 'o');
    }
    return 3;
  }
  if (a->what is 3) { return warm_line(ti, out, cap); }
  return 0;
}

static int type_index(const char* n) {
  for (int i = 0; i < NTYPES; i++) { if (strcmp(TYPES[i].name, n) is 0) { return i; } }
  return -1;
}
static int class_index(const char* n) {
  for (int i = 0; i < NCLS; i++) { if (strcmp(CLS[i].name, n) is 0) { return i; } }
  return -1;
}

static void op_static(char** w, int n) {
  if (n < 3) { bug("static: arguments"); }
  int ti = type_index(w[1]);
  if (ti < 0) { bug("static: unknown type"); }
  const char* order = w[2] + 6;
  bool cold = strcmp(order, "cold") is 0, warm = strcmp(order, "warm") is 0, others = strcmp(order, "others-first") is 0;
  if (strncmp(w[2], "order=", 6) isnt 0 or not (cold or warm or others)) { bug("static: order"); }
  char tb[8]; struct IsoArg a; memset(&a, 0, sizeof a); a.ti = ti;
  printf("static %s order=%s", w[1], order);
  a.what = 1; iso(&a, tb, 1); printf(" typeof=%c", tb[0]);
  a.what = 2; size_t k = iso(&a, tb, 3); tb[k] = 0; printf(" cast=%s", tb);
  if (warm) {
    static char big[16384];
    a.what = 3; k = iso(&a, big, sizeof big - 1); big[k] = 0;
    if (k is 1 and big[0] is 'D') { printf(" | DIED"); } else { fputs(big, stdout); }
  } else {
    a.what = 0; a.others = others;
    for (int c = 0; c < NCLS; c++) {
      printf(" | %s d=%d k=%x", CLS[c].name, ORA[ti][c].inst ? 1 : 0, ORA[ti][c].mask);
      a.c = c;
      for (int e = 0; e < 4; e++) { a.E = ENTRY4[e]; a.m = 0; iso(&a, tb, 1); printf(" %c=%c", ENTRY4[e], tb[0]); }
      for (int e = 0; e < 4; e++) {
        printf(" %c=", ENTRYM[e]);
        for (int m = 0; m < CLS[c].nmem; m++) { a.E = ENTRYM[e]; a.m = m; iso(&a, tb, 1); putchar(tb[0]); }
      }
    }
  }
  printf("\n");
}

/* ---- run-time types -------------------------------------------------------------------------------- */
#define MAXFILL 640
#define MAXINST 300
struct Filler { char name[40]; int nmem; var cls; };
struct Inst { int k; int fi; int nmem; unsigned mask; var obj; };
static struct Filler fillers[MAXFILL]; static int nfillers = 0;
static struct Inst insts[MAXINST]; static int ninst = 0;      /* the current declaration of RT */
static struct Inst pend[MAXINST]; static int npend = 0;       /* instance list of the next redeclare */
static var* old_objs = NULL; static int nold = 0, cold_cap = 0;   /* instances of earlier declarations */
static char rt_name[64]; static int64_t rt_size = 0; static bool rt_started = false, rt_made = false;
static var* ROOTS;                           /* locals of case_child: visible to the collector */
#define RT   (ROOTS[0])
#define TWIN (ROOTS[1])
static var X = NULL;                         /* object whose header says "my type is RT" */
static var X2 = NULL;                        /* a second one (binary operations) */
static var TERM_ONLY[1];                     /* items of an empty argument tuple */
static var* g_bottom;
static bool gc_ready = false;

static void need_cello(void) {
  if (gc_ready) { return; }
  gc_ready = true;
#ifndef CELLO_NGC
  new_raw(GC, $R(g_bottom));                 /* what the `main` macro of Cello.h does */
#endif
}

static var fab_int(int64_t v) { struct Int* i = fab(Int, sizeof *i); i->val = v; return i; }
static var fab_str(const char* s) { struct String* x = fab(String, sizeof *x); x->val = strdup(s); return x; }
static var fab_tuple(var* items) { struct Tuple* t = fab(Tuple, sizeof *t); t->items = items; return t; }

/* a class object laid out exactly like CelloObject() in Cello.h, with no instances */
static var hand_type(const char* name, size_t size) {
  size_t nv = CELLO_CACHE_NUM + 9;
  char* b = calloc(1, sizeof(struct Header) + nv * sizeof(var));
  var* v = header_init(b, NULL, AllocStatic);
  struct Type* t = (struct Type*)(v + CELLO_CACHE_NUM);
  t[0] = (struct Type){ NULL, "__Name", strdup(name) };
  t[1] = (struct Type){ NULL, "__Size", (var)(uintptr_t)size };
  t[2] = (struct Type){ NULL, NULL, NULL };
  return v;
}

struct Target { var obj; int k; int fi; int nmem; };
static bool resolve(const char* nm, struct Target* t) {
  t->k = -1; t->fi = -1; t->nmem = 1; t->obj = NULL;
  if (strcmp(nm, "self") is 0) { t->obj = RT; return true; }
  if (strcmp(nm, "twin") is 0) { t->obj = TWIN; return true; }
  for (int i = 0; i < nfillers; i++) {
    if (strcmp(fillers[i].name, nm) is 0) { t->obj = fillers[i].cls; t->fi = i; t->nmem = fillers[i].nmem; return true; }
  }
  int k = class_index(nm);
  if (k >= 0) { t->obj = *CLS[k].obj; t->k = k; t->nmem = CLS[k].nmem; return true; }
  int ti = type_index(nm);
  if (ti >= 0) { t->obj = *TYPES[ti].t; return true; }
  return false;
}

static void op_rt(char** w, int n) {
  if (n < 3 or rt_started) { bug("rt: arguments"); }
  snprintf(rt_name, sizeof rt_name, "%s", w[1]); rt_size = strtoll(w[2], NULL, 10); rt_started = true;
  printf("ok\n");
}
static void op_filler(char** w, int n) {
  if (n < 4 or nfillers >= MAXFILL) { bug("f: arguments"); }
  need_cello();
  struct Filler* f = &fillers[nfillers];
  snprintf(f->name, sizeof f->name, "%s", w[1]); f->nmem = atoi(w[2]);
  if (f->nmem < 1 or f->nmem > MAXMEM or class_index(w[1]) >= 0 or type_index(w[1]) >= 0) { bug("f: bad filler"); }
  if (w[3][0] is 'r') {
    var items[3] = { fab_str(w[1]), fab_int(f->nmem * (int64_t)sizeof(var)), Terminal };
    f->cls = new_raw_with(Type, fab_tuple(items));
  } else { f->cls = hand_type(w[1], f->nmem * sizeof(var)); }
  nfillers++;
  printf("ok\n");
}
/* i: instance of the first declaration (before mk); ri: instance of the next re-declaration (after mk).
 * Every instance is a fresh object; its members point into the trap set of its own declaration. */
static void op_inst(char** w, int n, bool re) {
  if (n < 3 or not rt_started or (re ? not rt_made : rt_made)) { bug("i/ri: arguments or order"); }
  if ((re ? npend : ninst) >= MAXINST) { bug("i/ri: too many instances"); }
  struct Target t;
  if (not resolve(w[1], &t) or (t.k < 0 and t.fi < 0)) { bug("i: unknown class"); }
  struct Inst* ip = re ? &pend[npend] : &insts[ninst];
  int g = (re ? cur_gen + 1 : 0) % NGEN;
  ip->k = t.k; ip->fi = t.fi; ip->nmem = t.nmem; ip->mask = (unsigned)strtoul(w[2], NULL, 16);
  ip->obj = fab(t.obj, MAXMEM * sizeof(var));
  for (int m = 0; m < t.nmem; m++) {
    if ((ip->mask >> m) & 1) { ((var*)ip->obj)[m] = t.k >= 0 ? TRAPS[g][t.k][m] : (var)t_filler; }
  }
  if (re) { npend++; } else { ninst++; }
  printf("ok\n");
}
static bool make_rt(char* err, size_t cap) {
  need_cello();
  var* items = calloc(ninst + 3, sizeof(var));
  items[0] = fab_str(rt_name); items[1] = fab_int(rt_size);
  for (int i = 0; i < ninst; i++) { items[2 + i] = insts[i].obj; }
  items[2 + ninst] = Terminal;
  var args = fab_tuple(items);
  var* titems = calloc(3, sizeof(var));
  titems[0] = fab_str(rt_name); titems[1] = fab_int(rt_size); titems[2] = Terminal;
  var targs = fab_tuple(titems);
  var volatile ex = NULL;
  try { RT = new_with(Type, args); TWIN = new_with(Type, targs); } catch (e) { ex = e; }
  if (ex) { snprintf(err, cap, "exc %s", c_str(ex)); return false; }
  X = fab(RT, 256); X2 = fab(RT, 256); TERM_ONLY[0] = Terminal;
  rt_made = true;
  return true;
}
static void op_mk(void) {
  char err[80];
  if (not rt_started or rt_made) { bug("mk: order"); }
  if (make_rt(err, sizeof err)) { printf("ok\n"); } else { printf("%s\n", err); }
}

/* redeclare <name> <size>: construct_with(RT, name, size, pending instances...) on the SAME type object */
static void op_redeclare(char** w, int n) {
  if (n < 3 or not rt_made) { bug("redeclare: arguments or order"); }
  need_cello();
  var* items = calloc(npend + 3, sizeof(var));
  items[0] = fab_str(w[1]); items[1] = fab_int(strtoll(w[2], NULL, 10));
  for (int i = 0; i < npend; i++) { items[2 + i] = pend[i].obj; }
  items[2 + npend] = Terminal;
  var args = fab_tuple(items);
  var volatile ex = NULL; var volatile r = NULL;
  try { r = construct_with(RT, args); } catch (e) { ex = e; }
  if (ex) { printf("exc %s\n", c_str(ex)); return; }
  if (r isnt RT) { printf("construct_with returned another object\n"); return; }
  if (nold + ninst > cold_cap) { cold_cap = (nold + ninst) * 2 + 16; old_objs = realloc(old_objs, cold_cap * sizeof(var)); }
  for (int i = 0; i < ninst; i++) { old_objs[nold++] = insts[i].obj; }
  memcpy(insts, pend, sizeof(struct Inst) * npend);
  ninst = npend; npend = 0; cur_gen++;
  snprintf(rt_name, sizeof rt_name, "%s", w[1]); rt_size = strtoll(w[2], NULL, 10);
  printf("ok\n");
}

static void ptr_tok(var r, char* out, size_t cap) {
  if (r is NULL) { snprintf(out, cap, "n"); return; }
  for (int i = 0; i < ninst; i++) { if (insts[i].obj is r) { snprintf(out, cap, "#%d", i); return; } }
  for (int i = 0; i < nold; i++) { if (old_objs[i] is r) { snprintf(out, cap, "old"); return; } }
  snprintf(out, cap, "o");
}

static bool api_cmp(var a, var b) { return false; }

static void api_call(int id) {
  char buf[8];
  switch (id) {
    case K_Doc * 8 + 1: brief(RT); break;
    case K_Doc * 8 + 2: description(RT); break;
    case K_Doc * 8 + 3: definition(RT); break;
    case K_Help * 8 + 0: help_to(NULL, 0, X); break;
    case K_Len * 8 + 0: len(X); break;
    case K_Iter * 8 + 0: iter_init(X); break;
    case K_Iter * 8 + 1: iter_next(X, NULL); break;
    case K_Iter * 8 + 2: iter_last(X); break;
    case K_Iter * 8 + 3: iter_prev(X, NULL); break;
    case K_Iter * 8 + 4: iter_type(X); break;
    case K_Push * 8 + 0: push(X, NULL); break;
    case K_Push * 8 + 1: pop(X); break;
    case K_Push * 8 + 2: push_at(X, NULL, NULL); break;
    case K_Push * 8 + 3: pop_at(X, NULL); break;
    case K_Concat * 8 + 0: concat(X, NULL); break;
    case K_Concat * 8 + 1: append(X, NULL); break;
    case K_Get * 8 + 0: get(X, NULL); break;
    case K_Get * 8 + 1: set(X, NULL, NULL); break;
    case K_Get * 8 + 2: mem(X, NULL); break;
    case K_Get * 8 + 3: rem(X, NULL); break;
    case K_Get * 8 + 4: key_type(X); break;
    case K_Get * 8 + 5: val_type(X); break;
    case K_Sort * 8 + 0: sort_by(X, api_cmp); break;
    case K_Resize * 8 + 0: resize(X, 3); break;
    case K_C_Str * 8 + 0: c_str(X); break;
    case K_C_Int * 8 + 0: c_int(X); break;
    case K_C_Float * 8 + 0: c_float(X); break;
    case K_Stream * 8 + 0: sopen(X, NULL, NULL); break;
    case K_Stream * 8 + 1: sclose(X); break;
    case K_Stream * 8 + 2: sseek(X, 0, 0); break;
    case K_Stream * 8 + 3: stell(X); break;
    case K_Stream * 8 + 4: sflush(X); break;
    case K_Stream * 8 + 5: seof(X); break;
    case K_Stream * 8 + 6: sread(X, buf, 0); break;
    case K_Stream * 8 + 7: swrite(X, buf, 0); break;
    case K_Pointer * 8 + 0: ref(X, NULL); break;
    case K_Pointer * 8 + 1: deref(X); break;
    case K_Call * 8 + 0: call_with(X, NULL); break;
    case K_Format * 8 + 0: format_to(X, 0, ""); break;
    case K_Format * 8 + 1: format_from(X, 0, ""); break;
    case K_Show * 8 + 1: look_from(X, NULL, 0); break;
    case K_Current * 8 + 0: current(RT); break;
    case K_Start * 8 + 0: start(X); break;
    case K_Start * 8 + 1: stop(X); break;
    case K_Start * 8 + 2: join(X); break;
    case K_Start * 8 + 3: running(X); break;
    case K_Lock * 8 + 0: lock(X); break;
    case K_Lock * 8 + 1: unlock(X); break;
    case K_Lock * 8 + 2: trylock(X); break;
    default: bug("api: member has no dispatching public function");
  }
}

/* fb <class> <m>: public functions that dispatch to a member but have a DEFAULT when the type leaves it out
 * (cmp, hash, assign, swap, copy, show_to, name, construct_with, destruct, alloc_raw, dealloc_raw, mark).
 *   member declared            -> exactly that function must run, once:                        "k"
 *   member not declared, safe  -> the default runs, no function of any declaration may run:    "f"  (any exception the
 *                                 default raises is part of the default)
 *   otherwise                  -> not executed:                                                "skip"
 * "safe": the default of cmp / hash / assign / swap touches size(type) bytes of the object; X and X2 are 256 bytes. */
static struct Inst* cur_inst(int k) {
  for (int i = 0; i < ninst; i++) { if (insts[i].k is k) { return &insts[i]; } }
  return NULL;
}
static bool cur_member(int k, int m) { struct Inst* ip = cur_inst(k); return ip and ((ip->mask >> m) & 1); }
static int fb_absent_mode(int k, int m) {          /* 0 never, 1 always safe, 2 needs a safe size */
  if (k is K_Cmp or k is K_Hash or k is K_Assign or k is K_Swap) { return 2; }
  if (k is K_New or k is K_Mark or (k is K_Doc and m is 0)) { return 1; }
  return 0;
}
static void fb_call(int id) {
  switch (id) {
    case K_Cmp * 8 + 0: cmp(X, X2); break;
    case K_Hash * 8 + 0: hash(X); break;
    case K_Assign * 8 + 0: assign(X, X2); break;
    case K_Swap * 8 + 0: swap(X, X2); break;
    case K_Copy * 8 + 0: copy(X); break;
    case K_Show * 8 + 0: show_to(X, NULL, 0); break;
    case K_Doc * 8 + 0: name(RT); break;
    case K_New * 8 + 0: construct_with(X, fab_tuple(TERM_ONLY)); break;
    case K_New * 8 + 1: destruct(X); break;
    case K_Alloc * 8 + 0: alloc_raw(RT); break;
    case K_Alloc * 8 + 1: dealloc_raw(X); break;
    case K_Mark * 8 + 0: mark(X, NULL, NULL); break;
    default: bug("fb: member has no public function with a default");
  }
}
static void exec_api(char** w, int n, char* out, size_t cap) {
  bool fb = w[0][0] is 'f';
  if (n < 3 or not rt_made) { bug("api/fb: arguments"); }
  int k = class_index(w[1]); int m = atoi(w[2]);
  if (k < 0 or m < 0 or m >= CLS[k].nmem) { bug("api/fb: class/member"); }
  bool present = cur_member(k, m);
  if (fb and not present) {
    int mode = fb_absent_mode(k, m);
    bool size_ok = rt_size >= 1 and rt_size <= 256 and not cur_member(K_Size, 0);
    if (mode is 0 or (mode is 2 and not size_ok)) { snprintf(out, cap, "skip"); return; }
  }
  int c0 = trap_calls, st0 = stale_hits; var volatile ex = NULL;
  trap_last = -1;
  try { if (fb) { fb_call(k * 8 + m); } else { api_call(k * 8 + m); } } catch (e) { ex = e; }
  if (fb and not present) {
    if (trap_calls is c0) { snprintf(out, cap, "f"); }
    else { snprintf(out, cap, "x,calls=%d,last=%d,STALE=%d", trap_calls - c0, trap_last, stale_hits - st0); }
    return;
  }
  if (ex) { snprintf(out, cap, "%s", strcmp(c_str(ex), "ClassError") is 0 ? "C" : c_str(ex)); if (trap_calls isnt c0) { strcat(out, ",TRAP"); } }
  else if (trap_calls is c0 + 1 and trap_last is k * MAXMEM + m and stale_hits is st0) { snprintf(out, cap, "k"); }
  else { snprintf(out, cap, "x,calls=%d,last=%d,STALE=%d", trap_calls - c0, trap_last, stale_hits - st0); }
}

/* a class object that is not the class itself but carries its name (run-time type object, no instances) */
static var alias_objs[NCLS + MAXFILL];
static var alias_of(struct Target* t) {
  int idx = t->k >= 0 ? t->k : NCLS + t->fi;
  if (alias_objs[idx] is NULL) {
    const char* nm = t->k >= 0 ? CLS[t->k].name : fillers[t->fi].name;
    var items[3] = { fab_str(nm), fab_int(t->nmem * (int64_t)sizeof(var)), Terminal };
    alias_objs[idx] = new_raw_with(Type, fab_tuple(items));
  }
  return alias_objs[idx];
}

/* q / sq / cast / tname: usable from any thread (no shared mutable state, answer into out) */
static void exec_q(char** w, int n, char* out, size_t cap) {
  int calls0 = trap_calls, stale0 = stale_hits;
  size_t len0 = 0;
  out[0] = 0;
  if (strcmp(w[0], "q") is 0 and n >= 4) {
    struct Target t; int m = atoi(w[3]);
    if (not resolve(w[2], &t) or m < 0 or m >= t.nmem) { bug("q: bad class or member"); }
    const char* mn = t.k >= 0 ? CLS[t.k].mn[m] : "member";
    struct Res r = entry(w[1][0], X, RT, t.obj, m, mn, false);
    if (r.kind is 2) { snprintf(out, cap, "%s", strcmp(r.exc, "ClassError") is 0 ? "C" : r.exc); }
    else if (r.kind is 1) { snprintf(out, cap, "%d", r.b); }
    else { ptr_tok(r.ptr, out, cap); }
  }
  else if (strcmp(w[0], "sq") is 0 and n >= 5) {
    int ti = type_index(w[2]); struct Target t; int m = atoi(w[4]);
    if (ti < 0 or not resolve(w[3], &t) or m < 0 or m >= t.nmem) { bug("sq: bad type, class or member"); }
    const char* cname = t.k >= 0 ? CLS[t.k].name : (t.fi >= 0 ? fillers[t.fi].name : w[3]);
    var T = *TYPES[ti].t;
    var oinst = ora_scan(T, cname);
    int d = oinst ? 1 : 0, mm = (oinst and ((var*)oinst)[m] isnt NULL) ? 1 : 0;
    const char* mn = t.k >= 0 ? CLS[t.k].mn[m] : "member";
    struct Res r = entry(w[1][0], SOBJ[ti], T, t.obj, m, mn, false);
    char c[48];
    if (r.kind is 2) { snprintf(c, sizeof c, "%s", strcmp(r.exc, "ClassError") is 0 ? "C" : r.exc); }
    else if (r.kind is 1) { snprintf(c, sizeof c, "%d", r.b); }
    else { snprintf(c, sizeof c, "%s", r.ptr is NULL ? "n" : (r.ptr is oinst ? "s" : "o")); }
    snprintf(out, cap, "%s,d=%d,m=%d", c, d, mm);
  }
  else if (strcmp(w[0], "oq") is 0 and n >= 5) {
    /* the static type object itself as the receiver (an object of type Type): ",v=1" = its header's type field was
     * still unset, i.e. nothing had looked at this object before */
    int ti = type_index(w[2]); struct Target t; int m = atoi(w[4]);
    if (ti < 0 or not resolve(w[3], &t) or m < 0 or m >= t.nmem) { bug("oq: bad type, class or member"); }
    const char* cname = t.k >= 0 ? CLS[t.k].name : (t.fi >= 0 ? fillers[t.fi].name : w[3]);
    var self = *TYPES[ti].t;
    int virgin = ((struct Header*)((char*)self - sizeof(struct Header)))->type is NULL;
    var oinst = ora_scan(Type, cname);
    int d = oinst ? 1 : 0, mm = (oinst and ((var*)oinst)[m] isnt NULL) ? 1 : 0;
    const char* mn = t.k >= 0 ? CLS[t.k].mn[m] : "member";
    char E = w[1][0];
    if (E isnt 'I' and E isnt 'P' and E isnt 'M' and E isnt 'R' and E isnt 'O') { bug("oq: entry point takes a type, not an object"); }
    char c[48];
    if (E is 'O') {
      var volatile r = NULL; var volatile ex = NULL;
      try { r = type_of(self); } catch (e) { ex = e; }
      if (ex) { snprintf(c, sizeof c, "%s", c_str(ex)); } else { snprintf(c, sizeof c, "%s", r is Type ? "s" : "o"); }
    } else {
      struct Res r = entry(E, self, Type, t.obj, m, mn, false);
      if (r.kind is 2) { snprintf(c, sizeof c, "%s", strcmp(r.exc, "ClassError") is 0 ? "C" : r.exc); }
      else if (r.kind is 1) { snprintf(c, sizeof c, "%d", r.b); }
      else { snprintf(c, sizeof c, "%s", r.ptr is NULL ? "n" : (r.ptr is oinst ? "s" : "o")); }
    }
    if (n >= 6 and w[5][0] is '-') { snprintf(out, cap, "%s,d=%d,m=%d,v=-", c, d, mm); }      /* first touch not reported */
    else { snprintf(out, cap, "%s,d=%d,m=%d,v=%d", c, d, mm, virgin); }
  }
  else if (strcmp(w[0], "cast") is 0 and n >= 3) {
    var obj; struct Target t;
    if (strcmp(w[1], "x") is 0) { obj = X; }
    else if (strcmp(w[1], "rt") is 0) { obj = RT; }                 /* the run-time type object itself (an object of type Type) */
    else if (w[1][0] is 's' and w[1][1] is ':' and type_index(w[1] + 2) >= 0) { obj = SOBJ[type_index(w[1] + 2)]; }
    else if (w[1][0] is 'o' and w[1][1] is ':' and type_index(w[1] + 2) >= 0) { obj = *TYPES[type_index(w[1] + 2)].t; }   /* a static type object itself */
    else { bug("cast: object"); obj = NULL; }
    if (not resolve(w[2], &t)) { bug("cast: target"); }
    var volatile r = NULL; var volatile ex = NULL; int last0 = trap_last;
    try { r = cast(obj, t.obj); } catch (e) { ex = e; }
    if (ex) { snprintf(out, cap, "%s", strcmp(c_str(ex), "ValueError") is 0 ? "V" : c_str(ex)); }
    else if (trap_calls is calls0 + 1 and trap_last is K_Cast * MAXMEM and r is obj) { snprintf(out, cap, "k"); calls0++; }
    else { snprintf(out, cap, "%s", r is obj ? "s" : "o"); }
    (void)last0;
  }
  else if (strcmp(w[0], "aq") is 0 and n >= 4) {
    /* lookup on the run-time type with an ALIAS of the class: another class object carrying the same name.  The answer
     * is only required to be admissible; what matters is that later lookups with the real class are unaffected. */
    struct Target t; int m = atoi(w[3]);
    if (not resolve(w[2], &t) or (t.k < 0 and t.fi < 0) or m < 0 or m >= t.nmem) { bug("aq: bad class or member"); }
    var alias = alias_of(&t);
    struct Res r = entry(w[1][0], X, RT, alias, m, "member", false);
    if (r.kind is 2) { snprintf(out, cap, "%s", strcmp(r.exc, "ClassError") is 0 ? "C" : r.exc); }
    else if (r.kind is 1) { snprintf(out, cap, "%d", r.b); }
    else { ptr_tok(r.ptr, out, cap); }
  }
  else if ((strcmp(w[0], "api") is 0 or strcmp(w[0], "fb") is 0) and n >= 3) { exec_api(w, n, out, cap); return; }
  else if (strcmp(w[0], "tname") is 0) {
    var volatile ex = NULL; char* volatile s = NULL;
    try { s = c_str(RT); } catch (e) { ex = e; }
    if (ex) { snprintf(out, cap, "%s", c_str(ex)); } else { snprintf(out, cap, "name=%s", s); }
  }
  else { bug("unknown lookup op"); }
  len0 = strlen(out);
  if (trap_calls isnt calls0) { snprintf(out + len0, cap - len0, ",TRAP=%d", trap_calls - calls0); }
  len0 = strlen(out);
  if (stale_hits isnt stale0) { snprintf(out + len0, cap - len0, ",STALE=%d", stale_hits - stale0); }
}

static void op_q(char** w, int n) {
  char out[128];
  if (not rt_made and strcmp(w[0], "sq") isnt 0 and strcmp(w[0], "oq") isnt 0 and not (strcmp(w[0], "cast") is 0 and w[1][0] is 's')) { bug("lookup before mk"); }
  need_cello();
  exec_q(w, n, out, sizeof out);
  int d = exc_depth();
  if (d isnt 0) { printf("%s depth=%d\n", out, d); } else { printf("%s\n", out); }
}

static void op_tsize(void) {
  if (not rt_made) { bug("tsize before mk"); }
  int c0 = trap_calls, st0 = stale_hits; size_t volatile s = 0; var volatile ex = NULL;
  try { s = size(RT); } catch (e) { ex = e; }
  if (ex) { printf("%s\n", c_str(ex)); }
  else if (stale_hits isnt st0) { printf("size=%zu traps=%d,STALE=%d\n", (size_t)s, trap_calls - c0, stale_hits - st0); }
  else { printf("size=%zu traps=%d\n", (size_t)s, trap_calls - c0); }
}

/* ---- threads --------------------------------------------------------------------------------------- */
#define MAXTQ 256
#define MAXTHR 16
static char* tq_w[MAXTQ][8]; static int tq_n[MAXTQ]; static int ntq = 0;
static char (*thr_res)[MAXTQ][64];
static int thr_count = 0, thr_rot = 0;
static volatile int thr_arrived = 0;

static void op_tq(char** w, int n) {
  if (ntq >= MAXTQ or n < 2 or n > 8) { bug("tq: arguments"); }
  for (int i = 1; i < n; i++) { tq_w[ntq][i - 1] = strdup(w[i]); }
  tq_n[ntq] = n - 1; ntq++;
  printf("ok\n");
}

static var thr_main(var args) {
  int k = (int)c_int(get(args, $I(0)));
  __atomic_add_fetch(&thr_arrived, 1, __ATOMIC_SEQ_CST);
  while (__atomic_load_n(&thr_arrived, __ATOMIC_SEQ_CST) < thr_count) { sched_yield(); }
  int start = ntq ? (int)(((long)k * thr_rot) % ntq) : 0;
  for (int j = 0; j < ntq; j++) {
    int idx = (start + j) % ntq;
    exec_q(tq_w[idx], tq_n[idx], thr_res[k][idx], 64);
    int d = exc_depth();
    if (d isnt 0) { size_t l = strlen(thr_res[k][idx]); snprintf(thr_res[k][idx] + l, 64 - l, ",depth=%d", d); }
  }
  return NULL;
}

static void op_threads(char** w, int n) {
  char err[80];
  if (n < 3 or not rt_started or rt_made) { bug("threads: arguments"); }
  thr_count = atoi(w[1]); thr_rot = atoi(w[2]);
  if (thr_count < 1 or thr_count > MAXTHR or thr_rot < 0) { bug("threads: count"); }
  if (not make_rt(err, sizeof err)) { printf("%s\n", err); return; }
  thr_res = calloc(MAXTHR, sizeof *thr_res);
  struct Function* fn = fab(Function, sizeof *fn); fn->func = thr_main;
  var volatile ex = NULL;
  try {
    for (int k = 0; k < thr_count; k++) {
      var* items = calloc(2, sizeof(var));          /* heap objects: they outlive this block */
      items[0] = fab_int(k); items[1] = Terminal;
      /* raw: a collector-registered Thread object would have its TLS table marked by this thread's
       * collector while the new thread is still filling it (Thread_Mark -> Table_Mark), unrelated to C08 */
      ROOTS[2 + k] = new_raw_with(Thread, tuple(fn));
      call_with(ROOTS[2 + k], fab_tuple(items));
    }
    for (int k = 0; k < thr_count; k++) { join(ROOTS[2 + k]); }
  } catch (e) { ex = e; }
  if (ex) { printf("exc %s\n", c_str(ex)); return; }
  printf("threads %d", thr_count);
  for (int k = 0; k < thr_count; k++) {
    printf(" t%d=", k);
    for (int j = 0; j < ntq; j++) { printf("%s%s", j ? "|" : "", thr_res[k][j][0] ? thr_res[k][j] : "MISSING"); }
  }
  printf("\n");
}

/* ---- case driver ----------------------------------------------------------------------------------- */
static void case_child(char** lines, int nlines) {
  var roots[32];
  memset(roots, 0, sizeof roots);
  ROOTS = roots;
  char* w[MAXW];
  for (int i = 0; i < nlines; i++) {
    int n = split(lines[i], w, MAXW);
    if (n is 0) { printf("ok\n"); continue; }
    const char* op = w[0];
    if (strcmp(op, "static") is 0) {
      if (gc_ready) { bug("static op after the case already called into Cello"); }
      op_static(w, n);
    }
    else if (strcmp(op, "rt") is 0) { op_rt(w, n); }
    else if (strcmp(op, "f") is 0) { op_filler(w, n); }
    else if (strcmp(op, "i") is 0) { op_inst(w, n, false); }
    else if (strcmp(op, "ri") is 0) { op_inst(w, n, true); }
    else if (strcmp(op, "redeclare") is 0) { op_redeclare(w, n); }
    else if (strcmp(op, "mk") is 0) { op_mk(); }
    else if (strcmp(op, "q") is 0 or strcmp(op, "sq") is 0 or strcmp(op, "oq") is 0 or strcmp(op, "cast") is 0 or strcmp(op, "tname") is 0) { op_q(w, n); }
    else if (strcmp(op, "tsize") is 0) { need_cello(); op_tsize(); }
    else if (strcmp(op, "api") is 0 or strcmp(op, "fb") is 0 or strcmp(op, "aq") is 0) { op_q(w, n); }
    else if (strcmp(op, "tq") is 0) { op_tq(w, n); }
    else if (strcmp(op, "threads") is 0) { op_threads(w, n); }
    else { bug("unknown op"); }
    fflush(stdout);
  }
  ROOTS = NULL;
}

int main(int argc, char** argv) {
  var bottom = NULL;
  g_bottom = &bottom;
  snapshot();
  init_traps();
  char** lines = NULL; int nlines = 0, cap = 0;
  while (true) {
    char* line = rd_line();
    if (line is NULL) { break; }
    if (strcmp(line, "end") isnt 0) {
      if (nlines is cap) { cap = cap ? cap * 2 : 256; lines = realloc(lines, cap * sizeof(char*)); }
      lines[nlines++] = strdup(line);
      continue;
    }
    fflush(stdout);
    pid_t p = fork();
    if (p < 0) { bug("fork"); }
    if (p is 0) {
      alarm(25); in_child = true;
      case_child(lines, nlines);
      fflush(stdout);
      _exit(0);
    }
    int st = 0;
    waitpid(p, &st, 0);
    if (WIFSIGNALED(st)) { printf("died sig=%d\n", WTERMSIG(st)); }
    else if (not WIFEXITED(st) or WEXITSTATUS(st) isnt 0) { printf("died exit=%d\n", WIFEXITED(st) ? WEXITSTATUS(st) : -1); }
    printf("done\n"); fflush(stdout);
    for (int i = 0; i < nlines; i++) { free(lines[i]); }
    nlines = 0;
  }
  return 0;
}
