/* libFuzzer target for C16 (with C09/C10 side checks): bytes are decoded into an op list over one heap String
 * (assign, concat, append, resize incl. far growth, rem, mem, cmp/eq, print_to with %s %li %% and with %$ %c, copy-and-continue);
 * the oracle is a plain C buffer driven with libc (strcat, strstr, memmove, strcmp, strlen) and an independent
 * MurmurHash64A.  After every op c_str/len/hash/cmp/eq/mem must agree with the model.  Traps on a violation. */
#include "Cello.h"
#include <inttypes.h>
#include <unistd.h>

#undef main

static const uint8_t* D; static size_t N, P;
static unsigned u8(void) { return P < N ? D[P++] : 0; }

static void fail(const char* what, const char* got, const char* want) {
  fprintf(stderr, "FZ-VIOLATION %s\n  got:  [%s]\n  want: [%s]\n", what, got, want);
  __builtin_trap();
}

static uint64_t murmur(const unsigned char* data, size_t len) {
  const uint64_t m = 0xc6a4a7935bd1e995ULL; const int r = 47;
  uint64_t h = 0xCe110 ^ (len * m);
  size_t nb = len / 8;
  for (size_t i = 0; i < nb; i++) {
    uint64_t k = 0;
    for (int b = 7; b >= 0; b--) { k = (k << 8) | data[i * 8 + (size_t)b]; }
    k *= m; k ^= k >> r; k *= m; h ^= k; h *= m;
  }
  const unsigned char* t = data + nb * 8; size_t rest = len & 7;
  if (rest) { for (size_t i = rest; i-- > 0;) { h ^= (uint64_t)t[i] << (8 * i); } h *= m; }
  h ^= h >> r; h *= m; h ^= h >> r;
  return h;
}

#define CAP 8192
static char model[CAP];

static size_t operand(char* out, size_t cap) {
  /* derived from the current value (slice / equal / repeat / longer / absent) or literal bytes */
  size_t ml = strlen(model); unsigned k = u8() % 8; size_t n = 0;
  if (k is 0) { n = 0; }
  else if (k is 1) { n = ml < cap - 1 ? ml : cap - 1; memcpy(out, model, n); }
  else if (k is 2 or k is 3) { size_t a = ml ? u8() % (ml + 1) : 0, b = ml ? u8() % (ml + 1) : 0; if (a > b) { size_t t = a; a = b; b = t; } n = b - a; if (n > cap - 1) { n = cap - 1; } memcpy(out, model + a, n); }
  else if (k is 4) { unsigned c = u8(); if (c is 0) { c = 'a'; } n = 1 + u8() % 6; memset(out, (int)c, n); }
  else if (k is 5) { n = ml < cap - 3 ? ml : cap - 3; memcpy(out, model, n); out[n++] = 'x'; out[n++] = 'y'; }
  else { n = u8() % 12; for (size_t i = 0; i < n; i++) { unsigned c = u8(); out[i] = (char)(c is 0 ? 1 : c); } }
  out[n] = 0;
  return n;
}

int LLVMFuzzerInitialize(int* argc, char*** argv) {
  static var bottom = NULL;
  new_raw(GC, $R(&bottom));
  stop(current(GC));
  return 0;
}

static int sgn(int c) { return c < 0 ? -1 : c > 0; }

int LLVMFuzzerTestOneInput(const uint8_t* data, size_t size) {
  D = data; N = size; P = 0;
  size_t il = u8() % 24;
  for (size_t i = 0; i < il; i++) { unsigned c = u8(); model[i] = (char)(c is 0 ? 'm' : c); }
  model[il] = 0;
  var s;
  if (il is 0 and (u8() & 1)) { s = new_raw(String); }        /* new(String) without arguments is the empty String */
  else { s = new_raw(String, $S(model)); }
  int nops = 1 + u8() % 24;
  char opd[CAP];
  for (int oi = 0; oi < nops; oi++) {
    unsigned op = u8() % 12;
    size_t ml = strlen(model);
    var volatile exc = NULL;
    if (op is 0) { size_t n = operand(opd, 400); try { assign(s, $S(opd)); } catch (e) { exc = e; } memcpy(model, opd, n + 1); }
    else if (op is 1 or op is 2) {
      size_t n = operand(opd, 400);
      if (ml + n < CAP - 1) { try { if (op is 1) { concat(s, $S(opd)); } else { append(s, $S(opd)); } } catch (e) { exc = e; } strcat(model, opd); }
    }
    else if (op is 3) {
      size_t n = u8() % 4 is 0 ? 0 : (u8() % 3 is 0 ? ml + 1 + u8() % 40 : (ml ? u8() % (ml + 1) : 0));
      try { resize(s, n); } catch (e) { exc = e; }
      if (n < ml) { model[n] = 0; }
    }
    else if (op is 4) {
      operand(opd, 400);
      char* pos = strstr(model, opd);
      var volatile e2 = NULL;
      try { rem(s, $S(opd)); } catch (e) { e2 = e; }
      if (pos) {
        if (e2) { fail("rem of a present substring raised", c_str(e2), opd); }
        memmove(pos, pos + strlen(opd), strlen(pos + strlen(opd)) + 1);
      } else if (e2 and e2 isnt ValueError) { fail("rem of an absent substring raised something else than ValueError", c_str(e2), opd); }
    }
    else if (op is 5) {
      operand(opd, 400);
      bool want = strstr(model, opd) isnt NULL, got = false;
      try { got = mem(s, $S(opd)); } catch (e) { exc = e; }
      if (not exc and got isnt want) { fail("mem disagrees with strstr", opd, model); }
    }
    else if (op is 6) {
      operand(opd, 400);
      int c = 0; bool e1 = false;
      try { c = cmp(s, $S(opd)); e1 = eq(s, $S(opd)); } catch (e) { exc = e; }
      if (not exc and (sgn(c) isnt sgn(strcmp(model, opd)) or e1 isnt (strcmp(model, opd) is 0))) { fail("cmp/eq disagree with strcmp", opd, model); }
    }
    else if (op is 7) {
      size_t pos = ml ? u8() % (ml + 1) : 0; size_t n = operand(opd, 200); int64_t iv = (int64_t)(int8_t)u8() * 1000003;
      char text[1024]; int tl = snprintf(text, sizeof text, "<%s|%li%%>", opd, (long)iv);
      int r = -1;
      if (pos + (size_t)tl < CAP - 1) {
        try { r = print_to(s, (int)pos, "<%s|%li%%>", $S(opd), $I(iv)); } catch (e) { exc = e; }
        memcpy(model + pos, text, (size_t)tl + 1);
        if (not exc and (size_t)r isnt pos + (size_t)tl) { fail("print_to returned position", model, text); }
      }
      (void)n;
    }
    else if (op is 9) {   /* %$ of a String operand (show: one small write per character, C escapes) followed by two %c */
      size_t pos = ml ? u8() % (ml + 1) : 0; size_t n = operand(opd, 200); unsigned ch = 1 + u8() % 255;
      char text[1024]; size_t tl = 0;
      text[tl++] = '"';
      for (size_t i = 0; i < n; i++) {
        const char* e = NULL;
        switch (opd[i]) {
          case '\a': e = "\\a"; break; case '\b': e = "\\b"; break; case '\f': e = "\\f"; break; case '\n': e = "\\n"; break;
          case '\r': e = "\\r"; break; case '\t': e = "\\t"; break; case '\v': e = "\\v"; break; case '\\': e = "\\\\"; break;
          case '\'': e = "\\'"; break; case '"': e = "\\\""; break; case '?': e = "\\?"; break;
        }
        if (e) { text[tl++] = e[0]; text[tl++] = e[1]; } else { text[tl++] = opd[i]; }
      }
      text[tl++] = '"'; text[tl++] = (char)ch; text[tl++] = (char)ch; text[tl] = 0;
      int r = -1;
      if (pos + tl < CAP - 1) {
        try { r = print_to(s, (int)pos, "%$%c%c", $S(opd), $I((int64_t)ch), $I((int64_t)ch - 256)); } catch (e) { exc = e; }
        memcpy(model + pos, text, tl + 1);
        if (not exc and (size_t)r isnt pos + tl) { fail("print_to %$ returned position", model, text); }
      }
    }
    else if (op is 10) {  /* go on with a copy; the original is deleted (no shared buffer) */
      var volatile c = NULL;
      try { c = copy(s); } catch (e) { exc = e; }
      if (c) { del_raw(s); s = c; }
    }
    else if (op is 11) {  /* grow far beyond the value, the value stays */
      size_t n = ml + 1 + (size_t)(u8() % 5) * 251 + u8();
      try { resize(s, n); } catch (e) { exc = e; }
    }
    else { /* hash of a Blob-like plain buffer through hash_data at a chosen alignment */
      size_t n = u8() % 40; unsigned off = u8() % 8;
      unsigned char* raw = malloc(n + off + 1); unsigned char* p = raw + off;
      for (size_t i = 0; i < n; i++) { p[i] = (unsigned char)u8(); }
      if (hash_data(p, n) isnt murmur(p, n)) { fail("hash_data disagrees with MurmurHash64A", "", ""); }
      free(raw);
    }
    if (exc) { fail("operation raised", c_str(exc), model); }
    if (strcmp(c_str(s), model) isnt 0) { fail("c_str differs from the model", c_str(s), model); }
    if (len(s) isnt strlen(model)) { fail("len differs from strlen", c_str(s), model); }
    if (hash(s) isnt murmur((unsigned char*)model, strlen(model))) { fail("hash differs from MurmurHash64A of the value", c_str(s), model); }
  }
  del_raw(s);
  return 0;
}
