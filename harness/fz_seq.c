/* libFuzzer target for C04 / C11: bytes are decoded into an op list (push / pop / push_at / pop_at / set / rem / concat /
 * resize / sort and sort_by / assign across kinds / copy / reserve / push_at with i == len or on an empty container) over
 * an Array<Int>, a List<Int> and a heap Tuple of distinct heap Ints driven in lock step; the oracle is a plain C array.
 * After every op: len, get with positive and negative indices, mem, forward iteration (exactly len items, i-th ==
 * get(i)), backward iteration (exact reverse), a generated Slice view (start, stop, step, optionally reversed) compared
 * with the positions its definition selects, and on request Zip(array, list), Filter and Map views compared with their
 * definitions.  Traps on a violation. */
#include "Cello.h"
#include <inttypes.h>
#include <unistd.h>

#undef main

static const uint8_t* D; static size_t N, P;
static unsigned u8(void) { return P < N ? D[P++] : 0; }

static void fail(const char* what, int64_t a, int64_t b) {
  fprintf(stderr, "FZ-VIOLATION %s (%lld, %lld)\n", what, (long long)a, (long long)b);
  __builtin_trap();
}

#define CAP 400
static int64_t m[CAP]; static size_t mn;

static int64_t val(void) { unsigned b = u8(); return b < 200 ? (int64_t)(b % 7) - 3 : (int64_t)(int8_t)b * 1000003LL; }

static void check(var c, const char* tag) {
  if (len(c) isnt mn) { fail(tag, (int64_t)len(c), (int64_t)mn); }
  for (size_t i = 0; i < mn; i++) {
    if (c_int(get(c, $I((int64_t)i))) isnt m[i]) { fail("get(i)", (int64_t)i, m[i]); }
    if (c_int(get(c, $I((int64_t)i - (int64_t)mn))) isnt m[i]) { fail("get(i-len)", (int64_t)i, m[i]); }
  }
  size_t k = 0;
  for (var it = iter_init(c); it isnt Terminal; it = iter_next(c, it)) {
    if (k >= mn) { fail("forward iteration yields more than len items", (int64_t)k, (int64_t)mn); }
    if (c_int(it) isnt m[k]) { fail("forward iteration item", (int64_t)k, m[k]); }
    k++;
  }
  if (k isnt mn) { fail("forward iteration count", (int64_t)k, (int64_t)mn); }
  k = mn;
  for (var it = iter_last(c); it isnt Terminal; it = iter_prev(c, it)) {
    if (k is 0) { fail("backward iteration yields more than len items", 0, (int64_t)mn); }
    k--;
    if (c_int(it) isnt m[k]) { fail("backward iteration item", (int64_t)k, m[k]); }
  }
  if (k isnt 0) { fail("backward iteration count", (int64_t)k, (int64_t)mn); }
  for (int64_t v = -3; v <= 3; v++) {
    bool want = false; for (size_t i = 0; i < mn; i++) { if (m[i] is v) { want = true; } }
    if (mem(c, $I(v)) isnt want) { fail("mem", v, want); }
  }
}

static void check_slice(var c) {
  if (mn is 0) { return; }
  int64_t start = u8() % (mn + 1), stop = u8() % (mn + 1), step = 1 + u8() % 4; bool rev = u8() & 1;
  if (start > stop) { int64_t t = start; start = stop; stop = t; }
  int64_t want[CAP]; size_t wn = 0;
  for (int64_t i = start; i < stop; i += step) { want[wn++] = m[i]; }
  var s = new_raw(Slice, c, $I(start), $I(stop), $I(rev ? -step : step));
  if (rev) {
    /* negative step: positions stop-1, stop-1-step, ... not below start */
    wn = 0;
    for (int64_t i = stop - 1; i >= start; i -= step) { want[wn++] = m[i]; }
  }
  if (len(s) isnt wn) { fail("Slice len", (int64_t)len(s), (int64_t)wn); }
  size_t k = 0;
  for (var it = iter_init(s); it isnt Terminal; it = iter_next(s, it)) {
    if (k >= wn) { fail("Slice yields more than len items", (int64_t)k, (int64_t)wn); }
    if (c_int(it) isnt want[k]) { fail("Slice item", (int64_t)k, want[k]); }
    k++;
  }
  if (k isnt wn) { fail("Slice count", (int64_t)k, (int64_t)wn); }
  for (size_t i = 0; i < wn; i++) { if (c_int(get(s, $I((int64_t)i))) isnt want[i]) { fail("Slice get", (int64_t)i, want[i]); } }
  k = wn;
  for (var it = iter_last(s); it isnt Terminal; it = iter_prev(s, it)) {
    if (k is 0) { fail("Slice backward yields more than len items", 0, (int64_t)wn); }
    k--;
    if (c_int(it) isnt want[k]) { fail("Slice backward item", (int64_t)k, want[k]); }
  }
  if (k isnt 0) { fail("Slice backward count", (int64_t)k, (int64_t)wn); }
  del_raw(s);
}

/* ---- the Tuple twin: pointers to heap Ints owned by this table (a Tuple never owns its elements) ---- */
#define MAXI 6000
static var ints[MAXI]; static size_t nints; static bool tup_on;
static var mkint(int64_t v) {
  if (nints >= MAXI) { tup_on = false; return NULL; }
  var x = new_raw(Int, $I(v)); ints[nints++] = x; return x;
}
#define TUP(stmt) do { if (tup_on) { stmt; } } while (0)

static var fz_even(var x) { return c_int(x) % 2 is 0 ? x : NULL; }
static var dblres = NULL;
static var fz_dbl(var x) { ((struct Int*)dblres)->val = c_int(x) * 2; return dblres; }

static void check_views(var a, var l) {
  var z = new_raw(Zip, a, l);
  if (len(z) isnt mn) { fail("Zip len", (int64_t)len(z), (int64_t)mn); }
  size_t k = 0;
  for (var it = iter_init(z); it isnt Terminal; it = iter_next(z, it)) {
    if (k >= mn) { fail("Zip yields more than len items", (int64_t)k, (int64_t)mn); }
    if (c_int(get(it, $I(0))) isnt m[k] or c_int(get(it, $I(1))) isnt m[k]) { fail("Zip item", (int64_t)k, m[k]); }
    k++;
  }
  if (k isnt mn) { fail("Zip count", (int64_t)k, (int64_t)mn); }
  k = mn;
  for (var it = iter_last(z); it isnt Terminal; it = iter_prev(z, it)) {
    if (k is 0) { fail("Zip backward yields more than len items", 0, (int64_t)mn); }
    k--;
    if (c_int(get(it, $I(0))) isnt m[k] or c_int(get(it, $I(1))) isnt m[k]) { fail("Zip backward item", (int64_t)k, m[k]); }
  }
  if (k isnt 0) { fail("Zip backward count", (int64_t)k, (int64_t)mn); }
  del_raw(z);
  var f = new_raw(Filter, l, $(Function, fz_even));
  k = 0;
  for (var it = iter_init(f); it isnt Terminal; it = iter_next(f, it)) {
    while (k < mn and m[k] % 2 isnt 0) { k++; }
    if (k >= mn) { fail("Filter yields an item that was not accepted", c_int(it), (int64_t)mn); }
    if (c_int(it) isnt m[k]) { fail("Filter item", (int64_t)k, m[k]); }
    k++;
  }
  while (k < mn and m[k] % 2 isnt 0) { k++; }
  if (k isnt mn) { fail("Filter misses an accepted item", (int64_t)k, m[k]); }
  k = mn;
  for (var it = iter_last(f); it isnt Terminal; it = iter_prev(f, it)) {
    while (k > 0 and m[k-1] % 2 isnt 0) { k--; }
    if (k is 0) { fail("Filter backward yields an item that was not accepted", c_int(it), (int64_t)mn); }
    k--;
    if (c_int(it) isnt m[k]) { fail("Filter backward item", (int64_t)k, m[k]); }
  }
  while (k > 0 and m[k-1] % 2 isnt 0) { k--; }
  if (k isnt 0) { fail("Filter backward misses an accepted item", (int64_t)k, 0); }
  del_raw(f);
  var mp = new_raw(Map, a, $(Function, fz_dbl));
  if (len(mp) isnt mn) { fail("Map len", (int64_t)len(mp), (int64_t)mn); }
  k = 0;
  for (var it = iter_init(mp); it isnt Terminal; it = iter_next(mp, it)) {
    if (k >= mn) { fail("Map yields more than len items", (int64_t)k, (int64_t)mn); }
    if (c_int(it) isnt 2 * m[k]) { fail("Map item", (int64_t)k, 2 * m[k]); }
    k++;
  }
  if (k isnt mn) { fail("Map count", (int64_t)k, (int64_t)mn); }
  k = mn;
  for (var it = iter_last(mp); it isnt Terminal; it = iter_prev(mp, it)) {
    if (k is 0) { fail("Map backward yields more than len items", 0, (int64_t)mn); }
    k--;
    if (c_int(it) isnt 2 * m[k]) { fail("Map backward item", (int64_t)k, 2 * m[k]); }
  }
  if (k isnt 0) { fail("Map backward count", (int64_t)k, (int64_t)mn); }
  for (size_t i = 0; i < mn; i++) { if (c_int(get(mp, $I((int64_t)i))) isnt 2 * m[i]) { fail("Map get", (int64_t)i, 2 * m[i]); } }
  del_raw(mp);
}

static int cmp_i64(const void* a, const void* b) { int64_t x = *(const int64_t*)a, y = *(const int64_t*)b; return x < y ? -1 : x > y; }

int LLVMFuzzerInitialize(int* argc, char*** argv) {
  static var bottom = NULL;
  new_raw(GC, $R(&bottom));
  stop(current(GC));
  dblres = new_raw(Int);
  return 0;
}

int LLVMFuzzerTestOneInput(const uint8_t* data, size_t size) {
  D = data; N = size; P = 0; mn = 0;
  nints = 0; tup_on = true;
  var a = new_raw(Array, Int);
  var l = new_raw(List, Int);
  var t = new_raw(Tuple);
  int nops = 1 + u8() % 40;
  for (int oi = 0; oi < nops; oi++) {
    unsigned op = u8() % 18;
    var volatile exc = NULL;
    try {
      if (op <= 2) { if (mn < CAP - 50) { int64_t v = val(); push(a, $I(v)); push(l, $I(v)); TUP(var x = mkint(v); if (x) { push(t, x); }); m[mn++] = v; } }
      else if (op is 3) { if (mn) { pop(a); pop(l); TUP(pop(t)); mn--; } }
      else if (op is 4) {
        if (mn and mn < CAP - 50) {
          size_t i = u8() % mn; int64_t v = val();
          push_at(a, $I(v), $I((int64_t)i)); push_at(l, $I(v), $I((int64_t)i));
          TUP(var x = mkint(v); if (x) { push_at(t, x, $I((int64_t)i)); });
          memmove(m + i + 1, m + i, (mn - i) * sizeof m[0]); m[i] = v; mn++;
        }
      }
      else if (op is 5) {
        if (mn) {
          size_t i = u8() % mn; bool neg = u8() & 1; int64_t ix = neg ? (int64_t)i - (int64_t)mn : (int64_t)i;
          pop_at(a, $I(ix)); pop_at(l, $I(ix)); TUP(pop_at(t, $I(ix)));
          memmove(m + i, m + i + 1, (mn - i - 1) * sizeof m[0]); mn--;
        }
      }
      else if (op is 6) {
        if (mn) {
          size_t i = u8() % mn; bool neg = u8() & 1; int64_t ix = neg ? (int64_t)i - (int64_t)mn : (int64_t)i; int64_t v = val();
          set(a, $I(ix), $I(v)); set(l, $I(ix), $I(v)); TUP(var x = mkint(v); if (x) { set(t, $I(ix), x); }); m[i] = v;
        }
      }
      else if (op is 7) {
        int64_t v = (int64_t)(u8() % 7) - 3; size_t i = 0;
        while (i < mn and m[i] isnt v) { i++; }
        if (i < mn) { rem(a, $I(v)); rem(l, $I(v)); TUP(rem(t, $I(v))); memmove(m + i, m + i + 1, (mn - i - 1) * sizeof m[0]); mn--; }
      }
      else if (op is 8) {
        size_t k = u8() % 6;
        if (mn + k < CAP - 50) {
          var o = (u8() & 1) ? new_raw(Array, Int) : new_raw(List, Int);
          var ot = new_raw(Tuple);
          for (size_t j = 0; j < k; j++) { int64_t v = val(); push(o, $I(v)); TUP(var x = mkint(v); if (x) { push(ot, x); }); m[mn + j] = v; }
          concat(a, o); concat(l, o); TUP(concat(t, ot)); mn += k;
          del_raw(o); del_raw(ot);
        }
      }
      else if (op is 9) {
        unsigned how = u8() % 4;
        if (how is 0) { resize(a, 0); resize(l, 0); if (mn) { TUP(resize(t, 0)); } mn = 0; }
        else if (how is 1 and mn >= 2) { size_t k = 1 + u8() % (mn - 1); resize(a, k); resize(l, k); TUP(resize(t, k)); mn = k; }
        else if (how is 2) { resize(a, mn + u8() % 40); }                       /* Array: reserve only */
        else if (mn < CAP - 100) { size_t k = mn + 1 + u8() % 40; resize(l, k); /* List: pads with zero elements */
          for (size_t j = mn; j < k; j++) { push(a, $I(0)); TUP(var x = mkint(0); if (x) { push(t, x); }); m[j] = 0; } mn = k; }
      }
      else if (op is 10 or op is 16) {
        bool desc = op is 10 and (u8() & 1);
        if (op is 16) { sort(a); TUP(sort(t)); }                               /* the plain entry point: ascending */
        else { sort_by(a, desc ? gt : lt); TUP(sort_by(t, desc ? gt : lt)); }
        qsort(m, mn, sizeof m[0], cmp_i64);
        if (desc) { for (size_t i = 0; i < mn / 2; i++) { int64_t t = m[i]; m[i] = m[mn - 1 - i]; m[mn - 1 - i] = t; } }
        resize(l, 0); foreach (x in a) { push(l, x); }
      }
      else if (op is 11) {
        var a2 = copy(a); var l2 = copy(l);
        push(a, $I(77)); push(l, $I(77)); if (mn) { set(a, $I(0), $I(78)); set(l, $I(0), $I(78)); }
        del(a); del(l); a = a2; l = l2;
        if (tup_on) { var t2 = copy(t); var x = mkint(77); if (x) { push(t, x); } del(t); t = t2; }
      }
      else if (op is 12) {
        var a2 = new_raw(Array, Int, $I(5), $I(6)); var l2 = new_raw(List, Int, $I(5));
        assign(a2, l); assign(l2, a);                /* cross-kind assignment */
        del_raw(a); del_raw(l); a = a2; l = l2;
        if (tup_on) { var t2 = new_raw(Tuple, $I(5)); assign(t2, t); del_raw(t); t = t2; }
      }
      else if (op is 13) { size_t k = u8() % 30; if (mn + k < CAP - 50) { for (size_t j = 0; j < k; j++) { int64_t v = (int64_t)j; push(a, $I(v)); push(l, $I(v)); TUP(var x = mkint(v); if (x) { push(t, x); }); m[mn++] = v; } } }
      else if (op is 14) { size_t k = u8() % 30; if (k > mn) { k = mn; } for (size_t j = 0; j < k; j++) { pop(a); pop(l); TUP(pop(t)); mn--; } }
      else if (op is 15) { if (mn and mn < CAP - 50) { int64_t v = val(); push_at(a, $I(v), $I(0)); push_at(l, $I(v), $I(0)); TUP(var x = mkint(v); if (x) { push_at(t, x, $I(0)); }); memmove(m + 1, m, mn * sizeof m[0]); m[0] = v; mn++; } }
      else {
        /* push_at with i == len (also on an empty container): the containers disagree whether it is in range, so either
        ** "IndexOutOfBoundsError and unchanged" (the element is then pushed) or "appended" is accepted - the checks
        ** below see the appended state in both cases */
        if (mn < CAP - 50) {
          int64_t v = val();
          var volatile r = NULL;
          try { push_at(a, $I(v), $I((int64_t)mn)); } catch (e in IndexOutOfBoundsError) { r = e; }
          if (r) { if (len(a) isnt mn) { fail("rejected push_at changed the Array", (int64_t)len(a), (int64_t)mn); } push(a, $I(v)); }
          r = NULL;
          try { push_at(l, $I(v), $I((int64_t)mn)); } catch (e in IndexOutOfBoundsError) { r = e; }
          if (r) { if (len(l) isnt mn) { fail("rejected push_at changed the List", (int64_t)len(l), (int64_t)mn); } push(l, $I(v)); }
          if (tup_on) {
            var x = mkint(v);
            if (x) {
              r = NULL;
              try { push_at(t, x, $I((int64_t)mn)); } catch (e in IndexOutOfBoundsError) { r = e; }
              if (r) { if (len(t) isnt mn) { fail("rejected push_at changed the Tuple", (int64_t)len(t), (int64_t)mn); } push(t, x); }
            }
          }
          m[mn++] = v;
        }
      }
    } catch (e) { exc = e; }
    if (exc) { fail("operation raised", (int64_t)op, (int64_t)mn); }
    check(a, "Array len");
    check(l, "List len");
    if (tup_on and mn <= 96) { check(t, "Tuple len"); }
    else if (tup_on and len(t) isnt mn) { fail("Tuple len", (int64_t)len(t), (int64_t)mn); }
    unsigned w = u8();
    check_slice((w & 1) ? a : ((w & 2) and tup_on and mn <= 96) ? t : l);
    if ((w & 12) is 0) { check_views(a, l); }
  }
  del(a); del(l); del(t);
  for (size_t i = 0; i < nints; i++) { del_raw(ints[i]); }
  return 0;
}
