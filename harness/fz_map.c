/* libFuzzer target for C02 / C03: bytes are decoded into an op list (set / rem / get / mem / resize 0 / reserve / copy /
 * assign / rebuild through the constructor's initial bindings / resize below len / set with a value that lives in the
 * container itself / get and rem of absent keys / iterate) over a Table<Int,Int> and a Tree<Int,Int> driven in lock step;
 * the oracle is a naive association array.  Keys come from a collision family (same residue modulo every table size up to 1259) plus small keys, so that
 * coverage-guided mutation explores displacement, wrap-around, backward shifts and the red-black fix-up cases.
 * After every op: len, mem/get over the key universe, each key iterated exactly once (Tree: strictly monotone,
 * backward walk = reverse).  Traps on a violation. */
#include "Cello.h"
#include <inttypes.h>
#include <unistd.h>

#undef main

static const uint8_t* D; static size_t N, P;
static unsigned u8(void) { return P < N ? D[P++] : 0; }

static void fail(const char* what, int64_t a, int64_t b) {
  fprintf(stderr, "FZ-VIOLATION %s (%lld, %lld)\n", what, (long long)a, (long long)b);
  __builtin_trap();
}

#define M (5LL*11*23*53*101*197*389*683*1259)
#define NK 24
static int64_t keys[NK];
static bool present[NK]; static int64_t vals[NK];

static void check(var c, bool tree, const char* tag) {
  size_t n = 0; for (int i = 0; i < NK; i++) { n += present[i]; }
  if (len(c) isnt n) { fail(tree ? "Tree len" : "Table len", (int64_t)len(c), (int64_t)n); }
  for (int i = 0; i < NK; i++) {
    bool m = mem(c, $I(keys[i]));
    if (m isnt present[i]) { fail(tree ? "Tree mem" : "Table mem", keys[i], m); }
    if (present[i] and c_int(get(c, $I(keys[i]))) isnt vals[i]) { fail(tree ? "Tree get" : "Table get", keys[i], vals[i]); }
  }
  /* iteration: every key once */
  size_t seen = 0; int hits[NK]; memset(hits, 0, sizeof hits);
  int64_t prev = 0; int dir = 0; size_t guard = 0;
  int64_t order[NK + 4];
  for (var it = iter_init(c); it isnt Terminal; it = iter_next(c, it)) {
    if (guard++ > 2 * NK + 4) { fail("iteration does not terminate", 0, 0); }
    int64_t k = c_int(it); int idx = -1;
    for (int i = 0; i < NK; i++) { if (keys[i] is k) { idx = i; } }
    if (idx < 0 or not present[idx]) { fail("iteration yields a key that is not bound", k, 0); }
    if (hits[idx]++) { fail("iteration yields a key twice", k, 0); }
    if (c_int(get(c, it)) isnt vals[idx]) { fail("get through the cursor", k, vals[idx]); }
    if (tree and seen > 0) {
      int d = k > prev ? 1 : -1;
      if (dir and d isnt dir) { fail("Tree iteration not monotone", k, prev); }
      dir = d;
    }
    prev = k; order[seen < NK ? seen : NK] = k; seen++;
  }
  if (seen isnt n) { fail("iteration count", (int64_t)seen, (int64_t)n); }
  if (tree) {
    size_t j = seen; guard = 0;
    for (var it = iter_last(c); it isnt Terminal; it = iter_prev(c, it)) {
      if (guard++ > 2 * NK + 4) { fail("backward iteration does not terminate", 0, 0); }
      if (j is 0 or c_int(it) isnt order[j - 1]) { fail("backward iteration is not the reverse", c_int(it), 0); }
      j--;
    }
    if (j isnt 0) { fail("backward iteration too short", (int64_t)j, 0); }
  }
}

/* Int objects that outlive a block (constructor argument lists): $I() temporaries die at the end of their block */
static struct { struct Header h; struct Int v; } ibuf[2 * NK + 2];
static var mk_int(int slot, int64_t v) {
  var o = header_init(&ibuf[slot].h, Int, AllocStack);
  ((struct Int*)o)->val = v;
  return o;
}

static void expect_key_error(var c, int64_t k, bool do_rem, const char* what) {
  var volatile e1 = NULL;
  try { if (do_rem) { rem(c, $I(k)); } else { get(c, $I(k)); } } catch (e) { e1 = e; }
  if (e1 isnt KeyError) { fail(what, k, 0); }
}

int LLVMFuzzerInitialize(int* argc, char*** argv) {
  static var bottom = NULL;
  new_raw(GC, $R(&bottom));
  stop(current(GC));
  return 0;
}

int LLVMFuzzerTestOneInput(const uint8_t* data, size_t size) {
  D = data; N = size; P = 0;
  unsigned fam = u8() % 4;
  for (int i = 0; i < NK; i++) {
    present[i] = false;
    if (i < 14) { keys[i] = (fam is 0 ? 0 : fam is 1 ? M - 1 : fam is 2 ? 3 : M - 2) + (int64_t)i * M; }     /* collide at every size */
    else if (i < 19) { keys[i] = (int64_t)(i - 13) * 5 * 11 * 23; }                       /* collide up to size 23 */
    else { keys[i] = (int64_t)i * 7 - 170; }
    if (keys[i] < 0 and i < 14) { keys[i] = -keys[i]; }
  }
  var t = new_raw(Table, Int, Int);
  var r = new_raw(Tree, Int, Int);
  int nops = 1 + u8() % 48;
  for (int oi = 0; oi < nops; oi++) {
    unsigned op = u8() % 14; int i = (int)(u8() % NK);
    var volatile exc = NULL;
    try {
      if (op <= 3) { int64_t v = (int64_t)(int8_t)u8(); set(t, $I(keys[i]), $I(v)); set(r, $I(keys[i]), $I(v)); present[i] = true; vals[i] = v; }
      else if (op <= 5) {
        if (present[i]) { rem(t, $I(keys[i])); rem(r, $I(keys[i])); present[i] = false; }
        else {
          expect_key_error(t, keys[i], true, "Table rem of an absent key did not raise KeyError");
          expect_key_error(r, keys[i], true, "Tree rem of an absent key did not raise KeyError");
        }
      }
      else if (op is 6) { resize(t, 0); resize(r, 0); for (int k = 0; k < NK; k++) { present[k] = false; } }
      else if (op is 7) { size_t n = 0; for (int k = 0; k < NK; k++) { n += present[k]; } resize(t, n + u8() % 40); }
      else if (op is 8) {
        var t2 = copy(t); var r2 = copy(r);
        set(t, $I(123456789), $I(1)); set(r, $I(123456789), $I(1));
        del(t); del(r); t = t2; r = r2;
      }
      else if (op is 9) {
        var t2 = new_raw(Table, Int, Int); var r2 = new_raw(Tree, Int, Int);
        set(t2, $I(5), $I(5)); set(r2, $I(5), $I(5));
        assign(t2, r); assign(r2, t);             /* cross-kind assignment */
        del_raw(t); del_raw(r); t = t2; r = r2;
      }
      else if (op is 10) {
        /* both containers are rebuilt through the constructor's initial bindings: new(Table, Int, Int, k1, v1, ...);
        ** the byte chooses where in the universe the argument list starts */
        var items[2 * NK + 3]; int n = 0; int from = (int)(u8() % NK);
        items[n++] = Int; items[n++] = Int;
        for (int q = 0; q < NK; q++) {
          int k = (from + q) % NK;
          if (present[k]) { items[n] = mk_int(n - 2, keys[k]); n++; items[n] = mk_int(n - 2, vals[k]); n++; }
        }
        items[n] = Terminal;
        var at = $(Tuple, items);
        var t2 = new_raw_with(Table, at); var r2 = new_raw_with(Tree, at);
        del_raw(t); del_raw(r); t = t2; r = r2;
      }
      else if (op is 11) {
        /* fewer slots than bindings: refused (FormatError in this build) or ignored - the bindings stay */
        size_t n = 0; for (int k = 0; k < NK; k++) { n += present[k]; }
        if (n >= 2) {
          var volatile e1 = NULL;
          try { resize(t, 1 + u8() % (n - 1)); } catch (e) { e1 = e; }
        }
      }
      else if (op is 12) {
        /* the value argument is the embedded value of another key of the same container */
        int j = (int)(u8() % NK);
        if (present[j] and j isnt i) {
          set(t, $I(keys[i]), get(t, $I(keys[j]))); set(r, $I(keys[i]), get(r, $I(keys[j])));
          present[i] = true; vals[i] = vals[j];
        }
      }
      else {
        if (not present[i]) {
          expect_key_error(t, keys[i], false, "Table get of an absent key did not raise KeyError");
          expect_key_error(r, keys[i], false, "Tree get of an absent key did not raise KeyError");
        }
      }
    } catch (e) { exc = e; }
    if (exc) { fail("operation raised", (int64_t)op, keys[i]); }
    check(t, false, "table");
    check(r, true, "tree");
  }
  del(t); del(r);
  return 0;
}
