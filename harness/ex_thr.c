/* ex_thr: executor for C13 (threads are isolated; join publishes; Mutex excludes).
 *
 * One case describes T workloads (small op language, see do_op), a yield schedule per workload,
 * 1..3 shared Mutex objects and join programs.  The executor
 *   1. runs every workload ALONE (one Cello Thread at a time, or the main thread for workload 0
 *      when main=1) and records its result digest and exception-trace digest,
 *   2. runs all workloads CONCURRENTLY (Cello Threads created with new/new_raw(Thread, Function),
 *      started with call(thread, arg), joined with join(thread)),
 *   3. prints both digests per workload plus the direct checks (ledger, TLS ownership, exception
 *      depth, join publication, mutex counters/flags) and the measured overlap.
 * Nothing that is printed depends on addresses or on the wall clock.
 *
 * Input lines:   cfg T main gcthr nmutex barrier
 *                t <idx>                      following o/y lines belong to workload idx
 *                o <op> args...
 *                y <opidx> <kind> <count>     before op opidx: 0 sched_yield*count, 1 spin count, 2 sleep count us
 *                j len seed dkind dcount mid nint slen nalloc     join program run by the main thread
 *                s <j> <mode> <src> <at>      workload j is not started by main with a fresh Thread but runs in a
 *                                             Thread object cloned from the RUNNING worker src when src is about
 *                                             to execute its op <at>:
 *                                               1 src: assign(new_raw(Thread), current(Thread)), call; joined when src's ops are done
 *                                               2 src: copy(current(Thread)), call, join at once
 *                                               3 main: assign(new_raw(Thread), <src's Thread object>) while src waits, call
 *                                               4 main: copy(<src's Thread object>) while src waits, call
 *                                             (alone-runs of j use an ordinary Thread; a clone first removes the
 *                                             user keys it inherited in its own copy of the thread-local table)
 *                                               5 src: new(Thread, fn) (managed by src's collector), hand over the gifts
 *                                                 of j, collect, call, join at once
 *                g <j> <ngc> <churn> <n> (<key> <id>)*n   gifts: before workload j is started its parent stores n fresh
 *                                             collector-managed objects, referenced from nowhere else, in the
 *                                             thread-local storage of the not-yet-started (managed) Thread object:
 *                                             set(thread, "g<key>", obj); then the parent clears its stack, forces ngc
 *                                             collections and allocates <churn> garbage objects; then call().  The
 *                                             child checks every gift (present, alive, right identity) before and
 *                                             after its workload and mixes the ids into its digest.  Parent = main
 *                                             (also in the alone-run) or the worker of an 's ... 5' line.
 *                r <j> <i>                    workload j runs, after everything else was joined, on the finished
 *                                             Thread object of workload i (call() again), gifts handed over before
 * Output lines:  thr i sdig sxdig cdig cxdig allocs fins sbad=.. cbad=..
 *                lock m counter expect flagseen tryfail
 *                join k ok|<message>
 *                ovl pairs gc_in thr_in maxpar
 *                bad <message>                (any direct check that failed)
 */
#include "common.h"
#include <pthread.h>
#include <sched.h>
#include <stdatomic.h>
#include <time.h>

#ifdef CELLO_NGC
#error "ex_thr needs the collector"
#endif

extern void Cello_Verif_GC_Collect(var self);

#define MAXT   16
#define NCONT  6          /* container slots */
#define NOBJ   4          /* instrumented-object slots */
#define NSLOT  (NCONT + NOBJ)
#define NKEY   6
#define NMUT   3
#define MAXWT  1024
#define MAXCHAIN 48

/* ---- digests ---------------------------------------------------------------------------- */
static void mix(uint64_t* d, uint64_t v) { *d = (*d ^ v) * 0x100000001b3ULL; *d ^= *d >> 29; }
static void mixs(uint64_t* d, const char* s) { while (*s) { mix(d, (unsigned char)*s++); } mix(d, 0x1ff); }

/* ---- program representation ------------------------------------------------------------- */
struct node { int kind; long a; int nf; int f[2]; int nk; struct node** k; };
struct op { int code; long a[12]; int na; struct node* tree; };
struct yield { int at, kind; long count; };
struct clonespec { int j, mode, at; };
struct prog { struct op* ops; int nops, cops; struct yield* ys; int nys, cys; long nalloc;
              struct clonespec cl[8]; int ncl; int started_by; /* -1 = main starts it normally */ int clone_mode;
              int ngift, gkey[4]; long gid[4]; int g_ngc; long g_churn; int restart_of; /* -1 = no */ };

enum { O_CN, O_CP, O_CR, O_CG, O_CS, O_CD, O_CC, O_CX, O_OB, O_CH, O_OW, O_OD, O_GC, O_EX,
       O_TS, O_TG, O_TR, O_LK, O_JW, O_SB, O_DA };

struct jobspec { long len, seed, dkind, dcount, mid, nint, slen, nalloc; };
struct giftrec { int tid; volatile int state; long id; };   /* never freed: the object may be finalised much later */

/* ---- per-run, per-thread state ---------------------------------------------------------- */
struct ledger { int tid; long cap, next; unsigned char* st; atomic_long foreign; long dbl, fins, garbage; };

struct tctx {
  int idx, tid, barrier, is_main_run;
  struct prog* p;
  uint64_t dig, xdig;
  struct ledger* led;
  long seq;
  long start, end, stamp;
  long* ev; int* evk; int nev, cev;
  volatile int done;
  char bad[200];
  var* slots;
  struct { int kind, et; } ci[NCONT];
  long incs[NMUT], tryfail;
  var tlsval[2048]; int ntls;
  var argref;
  int njoin;
  int concurrent;              /* this run is part of the concurrent phase (clone specs are acted on) */
  int is_clone;
  int cl_done[8]; var cl_thr[8];
  struct giftrec* grec[4];
};

static __thread int my_tid = 0;               /* 0 = main thread */
static __thread struct tctx* cur = NULL;
static atomic_long g_ops;
static atomic_int g_go;
static atomic_long g_foreign;
static atomic_int g_next_tid;
static atomic_int g_req[16], g_ack[16];            /* clone requests to main, indexed by workload j */
static struct tctx** g_conc = NULL;                /* contexts of the concurrent phase */
static pthread_mutex_t bad_mu = PTHREAD_MUTEX_INITIALIZER;
static char g_bad[8][240]; static int g_nbad = 0;

static void gbad(const char* fmt, ...) {
  va_list ap; va_start(ap, fmt);
  pthread_mutex_lock(&bad_mu);
  if (g_nbad < 8) { vsnprintf(g_bad[g_nbad], sizeof g_bad[0], fmt, ap); g_nbad++; }
  pthread_mutex_unlock(&bad_mu);
  va_end(ap);
}
static void tbad(struct tctx* c, const char* fmt, ...) {
  va_list ap; va_start(ap, fmt);
  if (not c->bad[0]) { vsnprintf(c->bad, sizeof c->bad, fmt, ap); }
  va_end(ap);
}

enum { EV_GC = 1, EV_THROW = 2 };
static void ev_add(struct tctx* c, int kind) {
  if (c->nev and c->ev[c->nev-1] is c->stamp and c->evk[c->nev-1] is kind) { return; }
  if (c->nev is c->cev) {
    c->cev = c->cev ? c->cev * 2 : 64;
    c->ev = realloc(c->ev, c->cev * sizeof(long)); c->evk = realloc(c->evk, c->cev * sizeof(int));
  }
  c->ev[c->nev] = c->stamp; c->evk[c->nev] = kind; c->nev++;
}

/* ---- shared mutex state ----------------------------------------------------------------- */
static var g_mutex[NMUT];
static volatile long g_counter[NMUT];
static volatile int  g_flag[NMUT];
static atomic_long   g_flagseen[NMUT];
static atomic_long   g_reentered[NMUT];     /* trylock by the owner reported success */
static atomic_long   g_free_refused;        /* alone-run: trylock on a Mutex nobody holds reported busy */

static void do_yield(int kind, long count);

/* ---- instrumented object ---------------------------------------------------------------- */
struct Obj { struct ledger* led; int64_t token; int64_t seq; var link; int32_t gen, births; int64_t spin; };
static var Obj;
/* set while a destructor allocates: the born object goes into the dying object's ledger (its allocator's) */
static __thread struct ledger* birth_led = NULL;

static void Obj_New(var self, var args) {
  struct Obj* o = self;
  struct tctx* c = cur;
  struct ledger* L = birth_led ? birth_led : (c ? c->led : NULL);
  if (L is NULL) { harness_bug("Obj constructed outside a workload"); }
  if (L->next >= L->cap) { harness_bug("ledger capacity"); }
  o->led = L; o->token = L->next++; o->seq = (birth_led or c is NULL) ? 0 : ++c->seq; o->link = NULL;
  L->st[o->token] = 1;
}
static void Obj_Del(var self) {
  struct Obj* o = self;
  struct ledger* L = o->led;
  if (L is NULL) { return; }                       /* never constructed */
  if (my_tid isnt L->tid) { atomic_fetch_add(&L->foreign, 1); atomic_fetch_add(&g_foreign, 1); }
  if (o->token < 1 or o->token >= L->next) { L->garbage++; return; }
  if (L->st[o->token] isnt 1) { L->dbl++; return; }
  L->st[o->token] = 2; L->fins++;
  if (cur and my_tid is L->tid) { ev_add(cur, EV_GC); }
  /* a destructor that allocates: generation g gives birth to `births` objects of generation g+1 (g <= 1),
   * registered with the collector of the thread that runs the destructor, left as garbage at once */
  if (o->births > 0 and o->gen < 2 and my_tid is L->tid) {
    struct ledger* saved = birth_led;
    birth_led = L;
    for (int b = 0; b < o->births; b++) {
      struct Obj* ch = new(Obj);
      ch->gen = o->gen + 1; ch->births = o->births; ch->spin = o->spin;
      if (o->spin) { do_yield((int)(o->spin & 1), o->spin >> 1); }
    }
    birth_led = saved;
  }
}
static var Obj = Cello(Obj, Instance(New, Obj_New, Obj_Del));

/* ---- gifts: objects a parent stores in the thread-local storage of a thread it is about to start ---- */
struct Gift { struct giftrec* rec; int64_t id; int64_t magic; };
#define GIFT_MAGIC 0x6769667431323334LL
static void Gift_Del(var self) {
  struct Gift* g = self;
  if (g->rec is NULL) { return; }
  if (my_tid isnt g->rec->tid) { atomic_fetch_add(&g_foreign, 1); }
  g->rec->state = g->rec->state is 1 ? 2 : 3;
  g->magic = 0;
}
static var Gift = Cello(Gift, Instance(New, NULL, Gift_Del));

static void __attribute__((noinline)) gift_one(var t, struct tctx* cc, int k) {
  struct giftrec* r = calloc(1, sizeof *r);
  r->tid = my_tid; r->state = 1; r->id = cc->p->gid[k];
  cc->grec[k] = r;
  struct Gift* g = new(Gift);
  g->rec = r; g->id = r->id; g->magic = GIFT_MAGIC;
  char kb[16]; snprintf(kb, sizeof kb, "g%d", cc->p->gkey[k]);
  set(t, $S(kb), g);
}
static void __attribute__((noinline)) scrub_stack(void) {
  volatile char pad[65536];
  for (size_t i = 0; i < sizeof pad; i++) { pad[i] = 0; }
}
static void __attribute__((noinline)) gift_garbage(long n) {
  for (long i = 0; i < n; i++) { var x = new(Int, $I(i)); (void)x; }
}
/* parent side: hand over, forget, collect.  t is collector-managed and reachable from the parent's stack */
static void parent_prepare(var t, struct tctx* cc) {
  struct prog* p = cc->p;
  if (p->ngift is 0) { return; }
  for (int k = 0; k < p->ngift; k++) { gift_one(t, cc, k); }
  scrub_stack();
  for (int n = 0; n < p->g_ngc; n++) { Cello_Verif_GC_Collect(current(GC)); }
  gift_garbage(p->g_churn);
  scrub_stack();
  for (int k = 0; k < p->ngift; k++) {
    if (cc->grec[k]->state isnt 1) {
      tbad(cc, "a collection in the parent finalised object %ld stored in the thread-local storage of the thread it was about to start", cc->grec[k]->id);
    }
  }
}
/* child side */
static void check_gifts(struct tctx* c, const char* when) {
  struct prog* p = c->p;
  for (int k = 0; k < p->ngift; k++) {
    struct giftrec* r = c->grec[k];
    if (r is NULL) { tbad(c, "%s: gift %d was never handed over", when, k); continue; }
    char kb[16]; snprintf(kb, sizeof kb, "g%d", p->gkey[k]);
    var volatile exc = NULL; var volatile v = NULL;
    try { v = get(current(Thread), $S(kb)); } catch (e) { exc = e; }
    if (exc) { tbad(c, "%s: thread-local entry %s stored by the parent is missing (%s)", when, kb, c_str(exc)); continue; }
    if (r->state isnt 1) { tbad(c, "%s: object %ld stored by the parent in this thread's thread-local storage was finalised", when, r->id); continue; }
    struct Gift* g = v;
    if (g is NULL or type_of(g) isnt Gift or g->rec isnt r or g->id isnt r->id or g->magic isnt GIFT_MAGIC) {
      tbad(c, "%s: thread-local entry %s is not the object the parent stored", when, kb); continue; }
    mix(&c->dig, 0x6700 + (uint64_t)p->gkey[k]); mix(&c->dig, (uint64_t)r->id);
  }
}

/* ---- exception kinds -------------------------------------------------------------------- */
static var* xkinds[] = { &TypeError, &KeyError, &ValueError, &IOError, &IndexOutOfBoundsError,
                         &ResourceError, &ClassError, &FormatError, &BusyError, &OutOfMemoryError, NULL };
static uint64_t kind_index(var e) {
  for (int i = 0; xkinds[i]; i++) { if (e is *xkinds[i]) { return (uint64_t)i; } }
  uint64_t h = 77; mixs(&h, c_str(e)); return h;
}

static void do_yield(int kind, long count) {
  if (kind is 0) { for (long i = 0; i < count; i++) { sched_yield(); } }
  else if (kind is 1) { volatile long x = 0; for (long i = 0; i < count; i++) { x += i; } }
  else { struct timespec ts = { 0, count * 1000L }; nanosleep(&ts, NULL); }
}

static void mkstr(char* buf, long k) {
  snprintf(buf, 48, "%ld:%.*s", k, (int)((k < 0 ? -k : k) % 17), "abcdefghijklmnopqrstuvw");
}

/* the record's message through the public interface: "<'Exception' At 0x<addr> <obj> - <msg>>" */
static void mix_exc_record(struct tctx* c) {
  var s = new_raw(String, $S(""));
  show_to(current(Exception), s, 0);
  char* p = strstr(c_str(s), " At ");
  if (p) { p += 4; while (*p and *p isnt ' ') { p++; } mixs(&c->xdig, p); }
  else { mixs(&c->xdig, "?"); }
  del_raw(s);
}

/* ---- exception trees -------------------------------------------------------------------- */
static void churn(struct tctx* c, long n);
static void run_node(struct tctx* c, struct node* n);

static void handler(struct tctx* c, struct node* n, var e) {
  mix(&c->xdig, 0x4800 + kind_index(e));
  mix_exc_record(c);
  run_node(c, n->k[1]);
}

static void run_node(struct tctx* c, struct node* n) {
  switch (n->kind) {
    case 'M': mix(&c->xdig, 0x4d00 + (uint64_t)n->a); mix(&c->xdig, (uint64_t)exc_depth()); break;
    case 'X': ev_add(c, EV_THROW); mix(&c->xdig, 0x5800 + (uint64_t)n->a);
              throw(*xkinds[n->a], "w%i k%i", $I(c->idx), $I(n->a)); break;
    case 'F': { ev_add(c, EV_THROW); var a = new(Array, Int); get(a, $I(n->a)); break; }   /* library throws */
    case 'A': churn(c, n->a); break;
    case 'G': ev_add(c, EV_GC); Cello_Verif_GC_Collect(current(GC)); break;
    case 'Y': do_yield((int)(n->a & 1), n->a >> 1); break;
    case 'S': for (int i = 0; i < n->nk; i++) { run_node(c, n->k[i]); } break;
    case 'T': {
      mix(&c->xdig, 0x5400 + (uint64_t)n->nf);
      if (n->nf is 0) {
        try { run_node(c, n->k[0]); } catch (e) { handler(c, n, e); }
      } else if (n->nf is 1) {
        var k1 = *xkinds[n->f[0]];
        try { run_node(c, n->k[0]); } catch (e in k1) { handler(c, n, e); }
      } else {
        var k1 = *xkinds[n->f[0]]; var k2 = *xkinds[n->f[1]];
        try { run_node(c, n->k[0]); } catch (e in k1, k2) { handler(c, n, e); }
      }
      mix(&c->xdig, 0x7400);
      break;
    }
    default: harness_bug("node kind");
  }
}

/* ---- workers for join programs ---------------------------------------------------------- */
struct job { struct jobspec s; unsigned char* buf; var arr; var str; volatile int done; int tid; };

static unsigned char pat(long seed, long i) { return (unsigned char)(((seed + 1) * 131 + i * 29 + (i >> 3)) | 1); }

static var join_fn(var args) {
  struct job* j = deref(get(args, $I(0)));
  my_tid = j->tid;
  do_yield((int)j->s.dkind, j->s.dcount);
  for (long i = 0; i < j->s.nalloc; i++) { new(Int, $I(i)); }      /* the worker's own collector at work */
  for (long i = 0; i < j->s.len; i++) {
    j->buf[i] = pat(j->s.seed, i);
    if (j->s.mid and i % j->s.mid is 0) { sched_yield(); }
  }
  for (long i = 0; i < j->s.nint; i++) { push(j->arr, $I(j->s.seed * 1000 + i)); }
  if (j->s.slen) {
    char tmp[80]; long n = j->s.slen < 70 ? j->s.slen : 70;
    for (long i = 0; i < n; i++) { tmp[i] = (char)('a' + (j->s.seed + i) % 26); }
    tmp[n] = 0;
    assign(j->str, $S(tmp));
  }
  j->done = 1;
  return NULL;
}

static struct { struct Header h; struct Function f; } fn_work_s, fn_join_s;
static var fn_work, fn_join;

/* runs a join program in the calling thread; returns NULL or a static message */
static const char* join_program(struct jobspec* s, char* msg, size_t msgn) {
  struct job* j = calloc(1, sizeof *j);
  j->s = *s;
  j->buf = calloc((size_t)s->len + 1, 1);
  j->arr = new_raw(Array, Int);
  j->str = new_raw(String, $S(""));
  j->tid = atomic_fetch_add(&g_next_tid, 1);
  var ref = new_raw(Ref, $R(j));
  var th = new_raw(Thread, fn_join);
  call(th, ref);
  join(th);
  /* read immediately */
  const char* r = NULL;
  if (not j->done) { r = "join returned before the thread function finished"; }
  for (long i = 0; i < s->len and not r; i++) {
    if (j->buf[i] isnt pat(s->seed, i)) { snprintf(msg, msgn, "byte %ld of %ld written by the thread not visible after join", i, s->len); r = msg; }
  }
  if (not r and (long)len(j->arr) isnt s->nint) { snprintf(msg, msgn, "Array pushed by the thread has len %ld after join, expected %ld", (long)len(j->arr), s->nint); r = msg; }
  for (long i = 0; i < s->nint and not r; i++) {
    if (c_int(get(j->arr, $I(i))) isnt s->seed * 1000 + i) { snprintf(msg, msgn, "Array element %ld wrong after join", i); r = msg; }
  }
  if (not r and s->slen) {
    long n = s->slen < 70 ? s->slen : 70; char* cs = c_str(j->str);
    if ((long)strlen(cs) isnt n) { snprintf(msg, msgn, "String assigned by the thread has length %ld after join, expected %ld", (long)strlen(cs), n); r = msg; }
    for (long i = 0; i < n and not r; i++) { if (cs[i] isnt (char)('a' + (s->seed + i) % 26)) { snprintf(msg, msgn, "String byte %ld wrong after join", i); r = msg; } }
  }
  if (r) { return r; }       /* state may still be in use by a runaway thread: leak it, caller exits */
  del_raw(th); del_raw(ref); del_raw(j->arr); del_raw(j->str); free(j->buf); free(j);
  return NULL;
}

/* ---- lock sections ---------------------------------------------------------------------- */
static bool __attribute__((noinline)) try_via_helper(var mu) { return trylock(mu); }

/* one guarded increment on mutex k, which the caller holds */
static void section_open(int k) { if (g_flag[k]) { atomic_fetch_add(&g_flagseen[k], 1); } g_flag[k] = 1; }

/* m: (mutex, mode) pairs; x: optional re-entry program {mask over the held mutexes, via helper?, other mutex or -1} */
static void lock_body(struct tctx* c, long* m, int n, long spin, long* x) {
  for (int i = 0; i < n; i++) { section_open((int)m[2*i]); }
  for (int i = 0; i < n; i++) {
    int k = (int)m[2*i];
    long v = g_counter[k];
    do_yield((int)(spin & 1), spin >> 1);
    g_counter[k] = v + 1;
    c->incs[k]++;
  }
  if (x) {
    /* same-thread re-entry: trylock on a Mutex this thread holds reports busy; if it reports success a second
     * section on the same Mutex is open while the first one still is */
    for (int i = 0; i < n; i++) {
      if (not (x[0] >> i & 1)) { continue; }
      int k = (int)m[2*i]; var mu = g_mutex[k];
      bool got = x[1] ? try_via_helper(mu) : trylock(mu);
      if (got) {
        atomic_fetch_add(&g_reentered[k], 1);
        section_open(k);                       /* sees the flag of the section that is still open */
        unlock(mu);
      }
    }
    /* a Mutex this thread does not hold: trylock may succeed (always when alone), then it is a section of its own */
    if (x[2] >= 0) {
      int k = (int)x[2]; bool held = false;
      for (int i = 0; i < n; i++) { if (m[2*i] is k) { held = true; } }
      if (not held) {
        var mu = g_mutex[k];
        if (x[1] ? try_via_helper(mu) : trylock(mu)) {
          section_open(k);
          long v = g_counter[k]; g_counter[k] = v + 1; c->incs[k]++;
          g_flag[k] = 0;
          unlock(mu);
        } else { c->tryfail++; if (not c->concurrent) { atomic_fetch_add(&g_free_refused, 1); } }
      }
    }
  }
  for (int i = 0; i < n; i++) { g_flag[(int)m[2*i]] = 0; }
}
static void lock_sec(struct tctx* c, long* m, int n, int i, long spin, long* x) {
  if (i is n) { lock_body(c, m, n, spin, x); return; }
  var mu = g_mutex[m[2*i]];
  switch ((int)m[2*i+1]) {
    case 0: lock(mu); lock_sec(c, m, n, i + 1, spin, x); unlock(mu); break;
    case 1: if (trylock(mu)) { lock_sec(c, m, n, i + 1, spin, x); unlock(mu); } else { c->tryfail++; } break;
    default: with (held in mu) { lock_sec(c, m, n, i + 1, spin, x); } break;
  }
}

/* ---- ops -------------------------------------------------------------------------------- */
static void churn(struct tctx* c, long n) {
  for (long i = 0; i < n; i++) { var o = new(Obj); if (((struct Obj*)o)->led isnt c->led) { tbad(c, "new object carries another thread's ledger"); } }
}

static void mix_elem(struct tctx* c, var x, int et) {
  if (et) { mixs(&c->dig, c_str(x)); } else { mix(&c->dig, (uint64_t)c_int(x)); }
}

static void do_op(struct tctx* c, struct op* o) {
  var* S = c->slots;
  long* a = o->a;
  switch (o->code) {
    case O_CN: {
      int s = (int)a[0]; var t = a[2] ? String : Int;
      c->ci[s].kind = (int)a[1]; c->ci[s].et = (int)a[2];
      switch (a[1]) {
        case 0: S[s] = new(Array, t); break;
        case 1: S[s] = new(List, t); break;
        case 2: S[s] = new(Table, t, Int); break;
        default: S[s] = new(Tree, t, Int); break;
      }
      break;
    }
    case O_CP: case O_CR: case O_CG: {
      int s = (int)a[0]; var x = S[s];
      if (x is NULL) { mix(&c->dig, 0xE0); break; }
      char kb[48]; mkstr(kb, a[1]);
      var ki = $I(a[1]); var ks = $S(kb); var key = c->ci[s].et ? ks : ki;
      bool seq = c->ci[s].kind < 2;
      if (o->code is O_CP) {
        if (seq) { push(x, key); } else { set(x, key, $I(a[2])); }
        mix(&c->dig, len(x));
      } else if (o->code is O_CR) {
        if (seq) { size_t l = len(x); if (l) { pop_at(x, $I((int64_t)((uint64_t)a[1] % l))); } }
        else { rem(x, key); }
        mix(&c->dig, len(x));
      } else {
        if (seq) { var r = get(x, $I(a[1])); mix_elem(c, r, c->ci[s].et); }
        else { mix(&c->dig, (uint64_t)mem(x, key)); var r = get(x, key); mix(&c->dig, (uint64_t)c_int(r)); }
      }
      break;
    }
    case O_CS: { var x = S[a[0]]; if (x and c->ci[a[0]].kind is 0) { sort(x); mix(&c->dig, 0x50); } break; }
    case O_CD: {
      int s = (int)a[0]; var x = S[s];
      if (x is NULL) { mix(&c->dig, 0xE1); break; }
      bool seq = c->ci[s].kind < 2; size_t n = 0, bound = 2 * len(x) + 4;
      mix(&c->dig, len(x));
      foreach (it in x) {
        if (n++ > bound) { tbad(c, "iteration overran len"); break; }
        mix_elem(c, it, c->ci[s].et);
        if (not seq) { mix(&c->dig, (uint64_t)c_int(get(x, it))); }
      }
      break;
    }
    case O_CC: { var x = S[a[0]]; if (x) { S[a[1]] = copy(x); c->ci[a[1]] = c->ci[a[0]]; mix(&c->dig, len(S[a[1]])); } break; }
    case O_CX: S[a[0]] = NULL; break;
    case O_OB: {                              /* chain of n objects, head kept in an object slot */
      int s = NCONT + (int)a[0]; var prev = NULL;
      for (long i = 0; i < a[1]; i++) { var ob = new(Obj); ((struct Obj*)ob)->link = prev; prev = ob; S[s] = ob; }
      break;
    }
    case O_CH: churn(c, a[0]); break;
    case O_OW: {                              /* everything reachable from the slot must be alive and ours */
      struct Obj* ob = S[NCONT + a[0]]; long n = 0; uint64_t sum = 0;
      while (ob and n <= MAXCHAIN) {
        if (type_of(ob) isnt Obj) { tbad(c, "object reachable from a slot is no longer an Obj"); break; }
        if (ob->led isnt c->led) { tbad(c, "object reachable from a slot belongs to another thread"); break; }
        if (ob->token < 1 or ob->token >= c->led->next) { tbad(c, "object reachable from a slot carries a corrupted token"); break; }
        if (c->led->st[ob->token] isnt 1) { tbad(c, "object reachable from a slot was finalised"); break; }
        sum += (uint64_t)ob->seq; n++; ob = ob->link;
      }
      mix(&c->dig, (uint64_t)n); mix(&c->dig, sum);
      break;
    }
    case O_OD: {                              /* explicit del of the chain head */
      int s = NCONT + (int)a[0]; struct Obj* ob = S[s];
      if (ob) { S[s] = ob->link; del(ob); mix(&c->dig, 0xD0); }
      break;
    }
    case O_GC: ev_add(c, EV_GC); Cello_Verif_GC_Collect(current(GC)); break;
    case O_EX: {
      try { run_node(c, o->tree); } catch (e) { mix(&c->xdig, 0xE5C0 + kind_index(e)); }
      mix(&c->xdig, 0xE0F);
      break;
    }
    case O_TS: {
      char kb[16]; snprintf(kb, sizeof kb, "k%ld", a[0]);
      if (c->ntls >= 2048) { harness_bug("too many thread-local stores in one workload"); }
      var v = new_raw(Int, $I(c->idx * 100000 + a[1]));
      c->tlsval[c->ntls++] = v;
      set(current(Thread), $S(kb), v);
      break;
    }
    case O_TG: {
      char kb[16]; snprintf(kb, sizeof kb, "k%ld", a[0]);
      var th = current(Thread); var key = $S(kb);
      bool m = mem(th, key); mix(&c->dig, (uint64_t)m);
      var v = get(th, key);                    /* KeyError when absent */
      bool mine = false;
      for (int i = 0; i < c->ntls; i++) { if (c->tlsval[i] is v) { mine = true; } }
      if (not mine) { tbad(c, "thread-local value read back is not one this thread stored"); break; }
      mix(&c->dig, (uint64_t)c_int(v));
      break;
    }
    case O_TR: { char kb[16]; snprintf(kb, sizeof kb, "k%ld", a[0]); rem(current(Thread), $S(kb)); break; }
    case O_LK: lock_sec(c, a + 2, (int)a[1], 0, a[0], o->na >= 2 + 2 * (int)a[1] + 3 ? a + 2 + 2 * a[1] : NULL); break;
    case O_JW: {
      struct jobspec s = { a[0], a[1], a[2], a[3], a[4], a[5], a[6], a[7] }; char msg[160];
      const char* r = join_program(&s, msg, sizeof msg);
      if (r) { tbad(c, "join inside workload: %s", r); }
      mix(&c->dig, 0x10);
      break;
    }
    case O_DA: {                              /* da mode n k spin slot: n objects whose destructor allocates k more (2 further generations) */
      int s = NCONT + (int)a[4]; var prev = NULL;
      for (long i = 0; i < a[1]; i++) {
        struct Obj* ob = new(Obj);
        ob->gen = 0; ob->births = (int32_t)a[2]; ob->spin = a[3];
        if (a[0] is 1) { ob->link = prev; prev = ob; S[s] = ob; }      /* kept (until the slot is reused or the thread ends) */
      }
      break;
    }
    case O_SB: {                              /* string building in a collected String */
      var s = new(String, $S("")); char kb[48];
      for (long i = 0; i < a[0]; i++) { mkstr(kb, a[1] + i); append(s, $S(kb)); }
      mixs(&c->dig, c_str(s)); mix(&c->dig, hash(s));
      break;
    }
    default: harness_bug("op code");
  }
}

/* clone specs of this worker that are due before op i (i = nops: everything still pending) */
static void do_clones(struct tctx* c, int i) {
  struct prog* p = c->p;
  if (not c->concurrent) { return; }
  for (int k = 0; k < p->ncl; k++) {
    struct clonespec* cs = &p->cl[k];
    if (c->cl_done[k] or cs->at > i) { continue; }
    c->cl_done[k] = 1;
    struct tctx* cc = g_conc[cs->j];
    var volatile exc = NULL;
    if (cs->mode is 1) {
      try {
        var cl = new_raw(Thread);
        assign(cl, current(Thread));
        c->cl_thr[k] = cl;
        call(cl, cc->argref);
      } catch (e) { exc = e; }
      if (exc) { tbad(c, "cloning the running thread with assign/call raised %s", c_str(exc)); c->cl_thr[k] = NULL; }
    } else if (cs->mode is 2) {
      try {
        var cl = copy(current(Thread));
        call(cl, cc->argref);
        join(cl);
      } catch (e) { exc = e; }
      if (exc) { tbad(c, "cloning the running thread with copy/call/join raised %s", c_str(exc)); }
      else if (not cc->done) { tbad(cc, "join returned before the thread function finished"); }
    } else if (cs->mode is 5) {                  /* this worker is the parent of a fresh managed Thread */
      try {
        var t = new(Thread, fn_work);
        parent_prepare(t, cc);
        call(t, cc->argref);
        join(t);
      } catch (e) { exc = e; }
      if (exc) { tbad(c, "starting a thread from a worker raised %s", c_str(exc)); }
      else if (not cc->done) { tbad(cc, "join returned before the thread function finished"); }
    } else {                                     /* the main thread clones this (waiting) worker */
      atomic_store(&g_req[cs->j], 1);
      while (not atomic_load(&g_ack[cs->j])) { sched_yield(); }
    }
  }
}
static void join_clones(struct tctx* c) {
  struct prog* p = c->p;
  if (not c->concurrent) { return; }
  for (int k = 0; k < p->ncl; k++) {
    if (p->cl[k].mode isnt 1 or c->cl_thr[k] is NULL) { continue; }
    struct tctx* cc = g_conc[p->cl[k].j];
    var volatile exc = NULL;
    try { join(c->cl_thr[k]); } catch (e) { exc = e; }
    if (exc) { tbad(c, "join of the cloned thread raised %s", c_str(exc)); continue; }
    if (not cc->done) { tbad(cc, "join returned before the thread function finished"); continue; }
    del_raw(c->cl_thr[k]); c->cl_thr[k] = NULL;
  }
}

static void run_workload(struct tctx* c) {
  var slots[NSLOT];
  memset(slots, 0, sizeof slots);
  c->slots = slots;
  cur = c;
  struct prog* p = c->p;
  if (c->barrier) { while (not atomic_load(&g_go)) { sched_yield(); } }
  int yi = 0;
  c->start = atomic_fetch_add(&g_ops, 1);
  for (int i = 0; i < p->nops; i++) {
    do_clones(c, i);
    while (yi < p->nys and p->ys[yi].at <= i) { if (p->ys[yi].at is i) { do_yield(p->ys[yi].kind, p->ys[yi].count); } yi++; }
    c->stamp = atomic_fetch_add(&g_ops, 1);
    var volatile exc = NULL;
    try { do_op(c, &p->ops[i]); } catch (e) { exc = e; }
    if (exc) { mix(&c->dig, 0xEE00 + kind_index(exc)); ev_add(c, EV_THROW); }
    int d = exc_depth();
    if (d isnt 0) { tbad(c, "exception depth %d after op %d", d, i); break; }
  }
  c->end = atomic_fetch_add(&g_ops, 1);
  do_clones(c, p->nops + 1);
  join_clones(c);
  /* leave no thread-local entries behind (the main thread's table outlives the case) */
  var volatile exc2 = NULL;
  try {
    var th = current(Thread);
    for (int k = 0; k < NKEY; k++) { char kb[16]; snprintf(kb, sizeof kb, "k%d", k); if (mem(th, $S(kb))) { rem(th, $S(kb)); } }
  } catch (e) { exc2 = e; }
  if (exc2) { tbad(c, "thread-local cleanup raised %s", c_str(exc2)); }
  for (int i = 0; i < c->ntls; i++) { del_raw(c->tlsval[i]); }
  c->ntls = 0;
  memset(slots, 0, sizeof slots);
  c->slots = NULL;
  cur = NULL;
}

static var work_fn(var args) {
  struct tctx* c = deref(get(args, $I(0)));
  my_tid = c->tid;
  if (c->is_clone) {
    /* Thread_Assign gave this thread a copy of the source's thread-local table: drop the user entries of
     * the copy (never dereferenced - the values belong to the source), the workload starts as when alone */
    var volatile exc = NULL;
    try {
      var th = current(Thread);
      for (int k = 0; k < NKEY; k++) { char kb[16]; snprintf(kb, sizeof kb, "k%d", k); if (mem(th, $S(kb))) { rem(th, $S(kb)); } }
    } catch (e) { exc = e; }
    if (exc) { tbad(c, "removing inherited thread-local entries raised %s", c_str(exc)); }
  }
  check_gifts(c, "before the workload");
  run_workload(c);
  my_tid = c->tid;
  check_gifts(c, "after the workload");
  c->done = 1;
  return NULL;
}

/* ---- parsing ---------------------------------------------------------------------------- */
static struct prog progs[MAXT];
static struct jobspec mjobs[8]; static int nmjobs;
static int cfgT, cfg_main, cfg_gcthr, cfg_nmutex, cfg_barrier;

static struct node* parse_node(char** w, int n, int* pos, struct prog* p) {
  if (*pos >= n) { harness_bug("tree truncated"); }
  struct node* nd = calloc(1, sizeof *nd);
  char k = w[(*pos)++][0];
  nd->kind = k;
  #define NEXT() (*pos < n ? strtol(w[(*pos)++], NULL, 10) : (harness_bug("tree arg"), 0L))
  switch (k) {
    case 'M': case 'X': case 'F': case 'Y': nd->a = NEXT(); break;
    case 'A': nd->a = NEXT(); p->nalloc += nd->a; break;
    case 'G': break;
    case 'S': nd->nk = (int)NEXT(); nd->k = calloc(nd->nk + 1, sizeof(struct node*));
              for (int i = 0; i < nd->nk; i++) { nd->k[i] = parse_node(w, n, pos, p); } break;
    case 'T': nd->nf = (int)NEXT(); if (nd->nf < 0 or nd->nf > 2) { harness_bug("filter arity"); }
              for (int i = 0; i < nd->nf; i++) { nd->f[i] = (int)NEXT(); }
              nd->nk = 2; nd->k = calloc(2, sizeof(struct node*));
              nd->k[0] = parse_node(w, n, pos, p); nd->k[1] = parse_node(w, n, pos, p); break;
    default: harness_bug("tree token");
  }
  #undef NEXT
  if (k is 'X' and (nd->a < 0 or nd->a > 3)) { harness_bug("throw kind"); }
  return nd;
}
static void free_node(struct node* n) {
  if (n is NULL) { return; }
  for (int i = 0; i < n->nk; i++) { free_node(n->k[i]); }
  free(n->k); free(n);
}

static struct { const char* name; int code; int minargs; } optab[] = {
  {"cn", O_CN, 3}, {"cp", O_CP, 3}, {"cr", O_CR, 2}, {"cg", O_CG, 2}, {"cs", O_CS, 1}, {"cd", O_CD, 1},
  {"cc", O_CC, 2}, {"cx", O_CX, 1}, {"ob", O_OB, 2}, {"ch", O_CH, 1}, {"ow", O_OW, 1}, {"od", O_OD, 1},
  {"gc", O_GC, 0}, {"ex", O_EX, 1}, {"ts", O_TS, 2}, {"tg", O_TG, 1}, {"tr", O_TR, 1}, {"lk", O_LK, 4},
  {"jw", O_JW, 8}, {"sb", O_SB, 2}, {"da", O_DA, 5}, {NULL, 0, 0}
};

static void parse_op(struct prog* p, char** w, int n) {
  if (p->nops is p->cops) { p->cops = p->cops ? p->cops * 2 : 32; p->ops = realloc(p->ops, p->cops * sizeof(struct op)); }
  struct op* o = &p->ops[p->nops++];
  memset(o, 0, sizeof *o);
  int t = -1;
  for (int i = 0; optab[i].name; i++) { if (strcmp(optab[i].name, w[1]) is 0) { t = i; } }
  if (t < 0) { harness_bug("unknown op"); }
  if (n - 2 < optab[t].minargs) { harness_bug("op arity"); }
  o->code = optab[t].code;
  if (o->code is O_EX) { int pos = 2; o->tree = parse_node(w, n, &pos, p); if (pos isnt n) { harness_bug("tree trailing tokens"); } return; }
  for (int i = 2; i < n and i - 2 < 12; i++) { o->a[i-2] = strtol(w[i], NULL, 10); }
  o->na = n - 2;
  #define RANGE(v, lo, hi) if ((v) < (lo) or (v) >= (hi)) { harness_bug("op argument out of range"); }
  switch (o->code) {
    case O_CN: RANGE(o->a[0], 0, NCONT); RANGE(o->a[1], 0, 4); RANGE(o->a[2], 0, 2); p->nalloc += 1; break;
    case O_CP: case O_CR: case O_CG: case O_CS: case O_CD: case O_CX: RANGE(o->a[0], 0, NCONT); break;
    case O_CC: RANGE(o->a[0], 0, NCONT); RANGE(o->a[1], 0, NCONT); break;
    case O_OB: RANGE(o->a[0], 0, NOBJ); RANGE(o->a[1], 0, MAXCHAIN + 1); p->nalloc += o->a[1]; break;
    case O_CH: RANGE(o->a[0], 0, 100000); p->nalloc += o->a[0]; break;
    case O_OW: case O_OD: RANGE(o->a[0], 0, NOBJ); break;
    case O_TS: case O_TG: case O_TR: RANGE(o->a[0], 0, NKEY); break;
    case O_LK: RANGE(o->a[1], 1, NMUT + 1); if (o->na < 2 + 2 * o->a[1]) { harness_bug("lk arity"); }
      for (int i = 0; i < o->a[1]; i++) {
        RANGE(o->a[2+2*i], 0, cfg_nmutex); RANGE(o->a[3+2*i], 0, 3);
        if (i and o->a[2+2*i] <= o->a[2*i]) { harness_bug("lk mutexes not in ascending order"); }
      }
      if (o->na >= 2 + 2 * o->a[1] + 3) { long* x = o->a + 2 + 2 * o->a[1]; RANGE(x[0], 0, 8); RANGE(x[1], 0, 2); RANGE(x[2], -1, cfg_nmutex); }
      break;
    case O_JW: RANGE(o->a[0], 0, 4097); RANGE(o->a[5], 0, 1025); break;
    case O_SB: RANGE(o->a[0], 0, 200); break;
    case O_DA: RANGE(o->a[0], 0, 2); RANGE(o->a[1], 0, 201); RANGE(o->a[2], 1, 4); RANGE(o->a[3], 0, 100000); RANGE(o->a[4], 0, NOBJ);
      if (o->a[0] is 1 and o->a[1] > MAXCHAIN) { harness_bug("da chain too long"); }
      p->nalloc += o->a[1] * (1 + o->a[2] + o->a[2] * o->a[2]); break;
    default: break;
  }
  #undef RANGE
}

static void reset_case(void) {
  for (int i = 0; i < MAXT; i++) {
    for (int k = 0; k < progs[i].nops; k++) { free_node(progs[i].ops[k].tree); }
    free(progs[i].ops); free(progs[i].ys);
    memset(&progs[i], 0, sizeof progs[i]);
    progs[i].started_by = -1; progs[i].restart_of = -1;
  }
  nmjobs = 0; cfgT = 0; g_nbad = 0;
}

/* ---- running ---------------------------------------------------------------------------- */
static struct tctx* mkctx(int idx, int is_main_run, int barrier) {
  struct tctx* c = calloc(1, sizeof *c);
  c->idx = idx; c->p = &progs[idx]; c->barrier = barrier; c->is_main_run = is_main_run;
  c->tid = is_main_run ? 0 : atomic_fetch_add(&g_next_tid, 1);
  c->dig = 0xcbf29ce484222325ULL; c->xdig = 0x84222325cbf29ce4ULL;
  struct ledger* L = calloc(1, sizeof *L);
  L->tid = c->tid; L->cap = c->p->nalloc + 8; L->next = 1; L->st = calloc((size_t)L->cap, 1);
  c->led = L;
  c->argref = new_raw(Ref, $R(c));
  return c;
}
static void freectx(struct tctx* c) {
  /* objects of a main-thread run are finalised by the main collector at some later time:
   * their ledger stays (the process is recycled after a bounded number of cases) */
  if (not c->is_main_run) { free(c->led->st); free(c->led); }
  del_raw(c->argref); free(c->ev); free(c->evk); free(c);
}

static void reset_locks(void) {
  for (int k = 0; k < NMUT; k++) { g_counter[k] = 0; g_flag[k] = 0; atomic_store(&g_flagseen[k], 0); atomic_store(&g_reentered[k], 0); }
  atomic_store(&g_free_refused, 0);
}

static void check_ledger(struct tctx* c, const char* phase) {
  struct ledger* L = c->led;
  if (atomic_load(&L->foreign)) { tbad(c, "%s: %ld object(s) allocated by this thread were finalised on another thread", phase, (long)atomic_load(&L->foreign)); }
  if (L->dbl) { tbad(c, "%s: %ld object(s) finalised twice", phase, L->dbl); }
  if (L->garbage) { tbad(c, "%s: destructor saw a corrupted object", phase); }
  /* the thread has been joined: its collector was torn down (repeated sweeps until nothing is left), so every
   * object it allocated - also those born in destructors - has been finalised.  Not for a main-thread run. */
  if (not c->is_main_run and L->fins isnt L->next - 1) {
    tbad(c, "%s: %ld of %ld objects allocated by this thread (incl. those born in destructors) were never finalised when join returned",
         phase, (L->next - 1) - L->fins, L->next - 1);
  }
}

int main(int argc, char** argv) {
  var thr[MAXT];
  memset(thr, 0, sizeof thr);
  fn_work_s.f.func = work_fn; fn_work = header_init(&fn_work_s, Function, AllocStatic);
  fn_join_s.f.func = join_fn; fn_join = header_init(&fn_join_s, Function, AllocStatic);
  atomic_store(&g_next_tid, 1);
  int cases = 0, curt = -1;
  static char* w[MAXWT];
  while (true) {
    char* line = rd_line();
    if (line is NULL) { break; }
    if (strcmp(line, "end") isnt 0) {
      int n = split(line, w, MAXWT);
      if (n is 0) { continue; }
      if (strcmp(w[0], "cfg") is 0 and n >= 6) {
        reset_case();
        cfgT = atoi(w[1]); cfg_main = atoi(w[2]); cfg_gcthr = atoi(w[3]); cfg_nmutex = atoi(w[4]); cfg_barrier = atoi(w[5]);
        if (cfgT < 1 or cfgT > MAXT or cfg_nmutex < 1 or cfg_nmutex > NMUT) { harness_bug("cfg"); }
      }
      else if (strcmp(w[0], "t") is 0 and n >= 2) { curt = atoi(w[1]); if (curt < 0 or curt >= cfgT) { harness_bug("t"); } }
      else if (strcmp(w[0], "o") is 0 and n >= 2) { if (curt < 0) { harness_bug("o before t"); } parse_op(&progs[curt], w, n); }
      else if (strcmp(w[0], "y") is 0 and n >= 4) {
        struct prog* p = &progs[curt];
        if (p->nys is p->cys) { p->cys = p->cys ? p->cys * 2 : 16; p->ys = realloc(p->ys, p->cys * sizeof(struct yield)); }
        p->ys[p->nys].at = atoi(w[1]); p->ys[p->nys].kind = atoi(w[2]); p->ys[p->nys].count = strtol(w[3], NULL, 10);
        if (p->nys and p->ys[p->nys].at < p->ys[p->nys-1].at) { harness_bug("yields not sorted"); }
        p->nys++;
      }
      else if (strcmp(w[0], "j") is 0 and n >= 9) {
        if (nmjobs >= 8) { harness_bug("too many join programs"); }
        long* f = (long*)&mjobs[nmjobs++];
        for (int i = 0; i < 8; i++) { f[i] = strtol(w[1+i], NULL, 10); }
      }
      else if (strcmp(w[0], "s") is 0 and n >= 5) {
        int j = atoi(w[1]), mode = atoi(w[2]), src = atoi(w[3]), at = atoi(w[4]);
        if (j < 0 or j >= cfgT or src < 0 or src >= cfgT or j is src or mode < 1 or mode > 5 or at < 0) { harness_bug("s line"); }
        if (cfg_main and (j is 0 or src is 0)) { harness_bug("s line: workload 0 is the main thread's"); }
        if (progs[src].ncl >= 8) { harness_bug("too many clones of one worker"); }
        progs[j].started_by = src; progs[j].clone_mode = mode;
        struct clonespec* cs = &progs[src].cl[progs[src].ncl++];
        cs->j = j; cs->mode = mode; cs->at = at;
      }
      else if (strcmp(w[0], "g") is 0 and n >= 5) {
        int j = atoi(w[1]); if (j < 0 or j >= cfgT) { harness_bug("g line"); }
        struct prog* p = &progs[j];
        p->g_ngc = atoi(w[2]); p->g_churn = strtol(w[3], NULL, 10); p->ngift = atoi(w[4]);
        if (p->ngift < 1 or p->ngift > 4 or n < 5 + 2 * p->ngift or p->g_ngc < 0 or p->g_ngc > 8 or p->g_churn < 0 or p->g_churn > 100000) { harness_bug("g line values"); }
        for (int k = 0; k < p->ngift; k++) {
          p->gkey[k] = atoi(w[5 + 2*k]); p->gid[k] = strtol(w[6 + 2*k], NULL, 10);
          if (p->gkey[k] < 0 or p->gkey[k] > 9) { harness_bug("g key"); }
          for (int q = 0; q < k; q++) { if (p->gkey[q] is p->gkey[k]) { harness_bug("g key repeated"); } }
        }
      }
      else if (strcmp(w[0], "r") is 0 and n >= 3) {
        int j = atoi(w[1]), i = atoi(w[2]);
        if (j < 0 or j >= cfgT or i < 0 or i >= cfgT or i is j) { harness_bug("r line"); }
        progs[j].restart_of = i;
      }
      else { harness_bug("unknown line"); }
      continue;
    }

    /* ---------------- run the case ---------------- */
    if (cfgT is 0) { harness_bug("case without cfg"); }
    int T = cfgT; bool failed = false;
    struct tctx* solo[MAXT]; struct tctx* conc[MAXT];
    memset(solo, 0, sizeof solo); memset(conc, 0, sizeof conc);
    for (int k = 0; k < cfg_nmutex; k++) { g_mutex[k] = new_raw(Mutex); }
    atomic_store(&g_foreign, 0);

    /* 1. every workload alone */
    atomic_store(&g_go, 1);
    for (int i = 0; i < T; i++) {
      reset_locks();
      bool on_main = cfg_main and i is 0;
      struct tctx* c = solo[i] = mkctx(i, on_main, 0);
      if (on_main) { run_workload(c); c->done = 1; }
      else {
        bool managed = cfg_gcthr or progs[i].ngift > 0;
        var t = managed ? (var)new(Thread, fn_work) : (var)new_raw(Thread, fn_work);
        thr[0] = t;
        var volatile exc = NULL;
        try { parent_prepare(t, c); call(t, c->argref); join(t); } catch (e) { exc = e; }
        if (exc) { printf("HARNESS-BUG thread start/join raised %s\n", c_str(exc)); printf("done\n"); fflush(stdout); _exit(3); }
        if (not c->done) { tbad(c, "join returned before the thread function finished"); failed = true; }
        else if (not managed) { del_raw(t); }
        thr[0] = NULL;
      }
      if (failed) { break; }
      check_ledger(c, "alone");
      for (int k = 0; k < cfg_nmutex; k++) {
        if (g_counter[k] isnt c->incs[k]) { tbad(c, "alone: counter of mutex %d is %ld after %ld increments", k, (long)g_counter[k], c->incs[k]); }
        if (atomic_load(&g_reentered[k])) { tbad(c, "alone: trylock on mutex %d by the thread that holds it reported success %ld time(s): two sections open at once", k, (long)atomic_load(&g_reentered[k])); }
        else if (atomic_load(&g_flagseen[k])) { tbad(c, "alone: in-section flag of mutex %d seen set on entry", k); }
      }
      if (atomic_load(&g_free_refused)) { tbad(c, "alone: trylock on a mutex nobody holds reported busy %ld time(s)", (long)atomic_load(&g_free_refused)); }
    }

    /* 2. all workloads at once */
    int jres_n = 0; char jres[8][200];
    if (not failed) {
      reset_locks();
      atomic_store(&g_ops, 0);
      atomic_store(&g_go, cfg_barrier ? 0 : 1);
      int nmode4 = 0, pending = 0, nrestart = 0, ngifted_by_main = 0; bool managed[MAXT];
      for (int i = 0; i < T; i++) {
        bool cl = progs[i].started_by >= 0;
        conc[i] = mkctx(i, cfg_main and i is 0, cl ? 0 : cfg_barrier);
        conc[i]->concurrent = 1; conc[i]->is_clone = cl;
        atomic_store(&g_req[i], 0); atomic_store(&g_ack[i], 0);
        if (cl and progs[progs[i].started_by].started_by >= 0) { harness_bug("clone of a clone"); }
        if (cl and (progs[i].clone_mode is 3 or progs[i].clone_mode is 4)) { pending++; }
        if (progs[i].restart_of >= 0) {
          int o = progs[i].restart_of;
          if (cl or progs[o].started_by >= 0 or progs[o].restart_of >= 0 or (cfg_main and o is 0)) { harness_bug("restart of a thread main did not start"); }
          for (int q = 0; q < i; q++) { if (progs[q].restart_of is o) { harness_bug("two restarts of one thread"); } }
          conc[i]->barrier = 0; nrestart++;
        }
        if (not cl and progs[i].ngift and not (cfg_main and i is 0)) { ngifted_by_main++; }
        if (cl and progs[i].clone_mode is 4) { nmode4++; }
      }
      /* copy() in main registers the clone with main's collector: main must not collect while it runs */
      if (nmode4 and (nmode4 > 1 or cfg_main or cfg_gcthr)) { harness_bug("mode 4 clone needs main=0 gcthr=0 and is allowed once"); }
      /* managed Thread objects that run while main could collect = the known finding: main must stay idle */
      if ((ngifted_by_main or nrestart) and (cfg_main or nmode4)) { harness_bug("gifts/restarts by main need main=0 and no mode 4 clone"); }
      g_conc = conc;
      int first = cfg_main ? 1 : 0;
      #define NORMAL(i) (progs[i].started_by < 0 and progs[i].restart_of < 0)
      #define MAINCL(i) (progs[i].started_by >= 0 and (progs[i].clone_mode is 3 or progs[i].clone_mode is 4))
      #define RESTART(i) (progs[i].restart_of >= 0)
      for (int i = 0; i < T; i++) { managed[i] = cfg_gcthr or progs[i].ngift > 0; }
      for (int i = first; i < T; i++) { if (RESTART(i)) { managed[progs[i].restart_of] = true; } }
      for (int i = first; i < T; i++) { if (NORMAL(i)) { thr[i] = managed[i] ? (var)new(Thread, fn_work) : (var)new_raw(Thread, fn_work); } }
      /* gifts: all handed over, forgotten and collected over before any thread runs */
      for (int i = first; i < T; i++) { if (NORMAL(i)) { parent_prepare(thr[i], conc[i]); } }
      var volatile exc = NULL;
      try { for (int i = first; i < T; i++) { if (NORMAL(i)) { call(thr[i], conc[i]->argref); } } } catch (e) { exc = e; }
      if (exc) { printf("HARNESS-BUG thread start raised %s\n", c_str(exc)); printf("done\n"); fflush(stdout); _exit(3); }
      atomic_store(&g_go, 1);
      /* clone requests: the source worker waits (it does not touch its thread-local table meanwhile) */
      while (pending) {
        for (int j = first; j < T; j++) {
          if (not MAINCL(j) or atomic_load(&g_ack[j]) or not atomic_load(&g_req[j])) { continue; }
          var src = thr[progs[j].started_by];
          var volatile cexc = NULL;
          try {
            if (progs[j].clone_mode is 3) { thr[j] = new_raw(Thread); assign(thr[j], src); }
            else { thr[j] = copy(src); }
            call(thr[j], conc[j]->argref);
          } catch (e) { cexc = e; }
          if (cexc) { tbad(conc[j], "cloning a running thread from the main thread raised %s", c_str(cexc)); thr[j] = NULL; failed = true; }
          atomic_store(&g_ack[j], 1);
          pending--;
        }
        if (pending) { sched_yield(); }
      }
      for (int k = 0; k < nmjobs and not failed; k++) {
        char msg[160]; const char* r = NULL; var volatile jexc = NULL;
        try { r = join_program(&mjobs[k], msg, sizeof msg); } catch (e) { jexc = e; }
        if (jexc) { snprintf(jres[jres_n++], 200, "raised %s", c_str(jexc)); failed = true; }
        else if (r) { snprintf(jres[jres_n++], 200, "%s", r); failed = true; }
        else { snprintf(jres[jres_n++], 200, "ok"); }
      }
      if (cfg_main) { run_workload(conc[0]); conc[0]->done = 1; }
      for (int pass = 0; pass < 2; pass++) {
        for (int i = first; i < T; i++) {
          if (thr[i] is NULL or (pass is 0) isnt NORMAL(i)) { continue; }
          var volatile jexc = NULL;
          try { join(thr[i]); } catch (e) { jexc = e; }
          if (jexc) { tbad(conc[i], "join raised %s", c_str(jexc)); failed = true; }
        }
      }
      for (int i = first; i < T; i++) {
        if (not RESTART(i) and not conc[i]->done) { tbad(conc[i], "join returned before the thread function finished (or the clone was never started)"); failed = true; }
      }
      /* second wave: finished Thread objects are given gifts and started again; nothing else runs */
      if (nrestart and not failed) {
        var volatile rexc = NULL;
        try {
          for (int j = first; j < T; j++) { if (RESTART(j)) { parent_prepare(thr[progs[j].restart_of], conc[j]); } }
          for (int j = first; j < T; j++) { if (RESTART(j)) { call(thr[progs[j].restart_of], conc[j]->argref); } }
          for (int j = first; j < T; j++) { if (RESTART(j)) { join(thr[progs[j].restart_of]); } }
        } catch (e) { rexc = e; }
        for (int j = first; j < T; j++) {
          if (not RESTART(j)) { continue; }
          if (rexc) { tbad(conc[j], "starting a finished Thread object again raised %s", c_str(rexc)); failed = true; }
          else if (not conc[j]->done) { tbad(conc[j], "join returned before the thread function finished"); failed = true; }
        }
      }
      if (not failed) {
        for (int i = first; i < T; i++) {
          if (thr[i] and ((NORMAL(i) and not managed[i]) or (MAINCL(i) and progs[i].clone_mode is 3))) { del_raw(thr[i]); }
          thr[i] = NULL;
        }
        for (int i = 0; i < T; i++) { check_ledger(conc[i], "concurrent"); }
      }
      #undef NORMAL
      #undef MAINCL
      #undef RESTART
    }

    /* 3. report */
    for (int i = 0; i < T; i++) {
      struct tctx* s = solo[i]; struct tctx* c = conc[i];
      if (s is NULL) { break; }
      if (s->bad[0] or (c and c->bad[0])) { failed = true; }
      printf("thr %d sdig=%016" PRIx64 " sxdig=%016" PRIx64, i, s->dig, s->xdig);
      if (c) {
        printf(" cdig=%016" PRIx64 " cxdig=%016" PRIx64 " allocs=%ld sfins=%ld cfins=%ld tryfail=%ld",
               c->dig, c->xdig, c->led->next - 1, s->led->fins, c->led->fins, c->tryfail);
      }
      printf(" sbad=%s", s->bad[0] ? s->bad : "-");
      printf(" ;cbad=%s\n", (c and c->bad[0]) ? c->bad : "-");
    }
    if (conc[0]) {
      for (int k = 0; k < cfg_nmutex; k++) {
        long expect = 0;
        for (int i = 0; i < T; i++) { expect += conc[i]->incs[k]; }
        long seen = (long)atomic_load(&g_flagseen[k]);
        long re = (long)atomic_load(&g_reentered[k]);
        printf("lock %d counter=%ld expect=%ld flagseen=%ld reentered=%ld\n", k, (long)g_counter[k], expect, seen, re);
        if (g_counter[k] isnt expect or seen or re) { failed = true; }
      }
      for (int k = 0; k < jres_n; k++) { printf("join %d %s\n", k, jres[k]); }
      /* measured overlap */
      long pairs = 0, gc_in = 0, thr_in = 0, maxpar = 0;
      for (int i = 0; i < T; i++) {
        long par = 0;
        for (int j = 0; j < T; j++) {
          if (conc[j]->start <= conc[i]->start and conc[i]->start < conc[j]->end) { par++; }
          if (j > i and conc[i]->start < conc[j]->end and conc[j]->start < conc[i]->end
              and conc[i]->p->nops and conc[j]->p->nops) { pairs++; }
        }
        if (par > maxpar) { maxpar = par; }
        for (int e = 0; e < conc[i]->nev; e++) {
          long s = conc[i]->ev[e]; bool inside = false;
          for (int j = 0; j < T; j++) { if (j isnt i and conc[j]->p->nops and conc[j]->start < s and s < conc[j]->end) { inside = true; } }
          if (inside) { if (conc[i]->evk[e] is EV_GC) { gc_in++; } else { thr_in++; } }
        }
      }
      printf("ovl pairs=%ld gc_in=%ld thr_in=%ld maxpar=%ld\n", pairs, gc_in, thr_in, maxpar);
    }
    if (atomic_load(&g_foreign)) { gbad("%ld finalisation(s) ran on a thread other than the allocating one", (long)atomic_load(&g_foreign)); }
    for (int k = 0; k < g_nbad; k++) { printf("bad %s\n", g_bad[k]); failed = true; }
    printf("done\n"); fflush(stdout);
    if (failed) { _exit(0); }            /* state may be shared with runaway threads: start over */

    for (int i = 0; i < T; i++) { freectx(solo[i]); freectx(conc[i]); solo[i] = conc[i] = NULL; }
    for (int k = 0; k < cfg_nmutex; k++) { del_raw(g_mutex[k]); g_mutex[k] = NULL; }
    memset(thr, 0, sizeof thr);
    reset_case();
    if (++cases >= 400) { break; }
  }
  return 0;
}
