#!/bin/sh
# run every registered check's quick (default) or thorough command against /repo; prints one line per check
cd "$(dirname "$0")/.."
tier="${1:-quick}"
for id in $(python3 -c "import json; print(' '.join(c['property_id'] for c in json.load(open('MANIFEST.json'))['checks']))"); do
  out="$(./check "$id" --tier "$tier" 2>&1)"; rc=$?
  echo "$id rc=$rc $(printf '%s\n' "$out" | grep -c '^KNOWN-FINDING') known-finding line(s): $(printf '%s\n' "$out" | grep -v '^KNOWN-FINDING' | tail -1)"
done
