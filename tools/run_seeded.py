#!/usr/bin/env python3
"""Run the registered checks against the seeded changes kept under /verif/seeded/<name>/.

For each seeded change: a scratch worktree of /repo's HEAD is created under /tmp, patch.diff is applied there,
the check(s) named in meta.json ("property", optional "also") are run with VERIF_REPO pointing at it, the outcome
(VIOLATION reported or not, wall time) is written to seeded/<name>/result.json, and the worktree is removed.
(Equivalent to `git -C /repo apply` + run + `git -C /repo checkout -- .`, but leaves /repo untouched so that
other runs are not disturbed.)
usage: tools/run_seeded.py [name ...] [--tier quick|thorough] [--all-checks]
"""
import os, sys, json, subprocess, time, shutil
ROOT = os.path.dirname(os.path.dirname(os.path.abspath(__file__)))
SEEDED = os.path.join(ROOT, "seeded")


def run(name, tier, all_checks):
    d = os.path.join(SEEDED, name)
    meta = json.load(open(os.path.join(d, "meta.json")))
    wt = "/tmp/seedwt-%s-%d" % (name, os.getpid())
    subprocess.run(["git", "-C", "/repo", "worktree", "add", "-f", "--detach", wt, "HEAD"], check=True, capture_output=True)
    res = {"tier": tier, "runs": []}
    try:
        r = subprocess.run(["git", "-C", wt, "apply", os.path.join(d, "patch.diff")], capture_output=True, text=True)
        if r.returncode != 0:
            res["error"] = "patch does not apply: " + r.stderr[-300:]
            return res
        ids = [meta["property"]] + list(meta.get("also", []))
        if all_checks:
            m = json.load(open(os.path.join(ROOT, "MANIFEST.json")))
            ids = [c["property_id"] for c in m["checks"]]
        env = dict(os.environ, VERIF_REPO=wt)
        for pid in ids:
            t0 = time.time()
            p = subprocess.run([os.path.join(ROOT, "check"), pid, "--tier", tier], capture_output=True, text=True, env=env, cwd=ROOT)
            viol = [l for l in p.stdout.splitlines() if l.startswith("VIOLATION")]
            fail = [l.strip() for l in p.stdout.splitlines() if l.strip().startswith("failure:")]
            res["runs"].append({"check": pid, "exit": p.returncode, "violation": bool(viol), "first_failure": (fail[0][:300] if fail else ""),
                                "wall_s": round(time.time() - t0, 1)})
    finally:
        subprocess.run(["git", "-C", "/repo", "worktree", "remove", "--force", wt], capture_output=True)
        shutil.rmtree(wt, ignore_errors=True)
    res["caught_by"] = [r["check"] for r in res["runs"] if r["violation"]]
    json.dump(res, open(os.path.join(d, "result_%s.json" % tier), "w"), indent=1)
    return res


if __name__ == "__main__":
    args = [a for a in sys.argv[1:] if not a.startswith("--")]
    tier = "thorough" if "--tier" in sys.argv and sys.argv[sys.argv.index("--tier") + 1] == "thorough" else "quick"
    if "--tier" in sys.argv:
        args = [a for a in args if a not in ("quick", "thorough")]
    names = args or sorted(n for n in os.listdir(SEEDED) if os.path.isdir(os.path.join(SEEDED, n)))
    for n in names:
        r = run(n, tier, "--all-checks" in sys.argv)
        print(n, "caught_by=%s" % r.get("caught_by"), r.get("error", ""), [(x["check"], x["wall_s"]) for x in r.get("runs", [])])
