#!/bin/sh
# tools/intake.sh <mut id e.g. C02b> <name> <property> [also ...] : verify, register, run, drop the agent's worktree
id="$1"; name="$2"; prop="$3"; shift 3
cd "$(dirname "$0")/.."
tools/verify_seeded.sh /tmp/mut/$id.out "$name" "$prop" || exit 1
if [ $# -gt 0 ]; then
python3 - "$name" "$@" <<'PY'
import json,sys
p='/verif/seeded/%s/meta.json'%sys.argv[1]
m=json.load(open(p)); m["also"]=sys.argv[2:]; json.dump(m,open(p,'w'),indent=1)
PY
fi
tools/run_seeded.py "$name"
git -C /repo worktree remove --force /tmp/mut/$id 2>/dev/null
