#!/usr/bin/env python3
"""Prepare one round of independent seeded changes: per property a prompt file (property text only, nothing from
/verif) and a scratch worktree of /repo under /tmp/mut.  usage: mkround.py <suffix> [ids...]
The agents' deliverables arrive in /tmp/mut/<id><suffix>.out; tools/intake.sh verifies and stores them."""
import json, os, subprocess, sys, glob
here = os.path.dirname(os.path.abspath(__file__))
suffix = sys.argv[1]
ids = sys.argv[2:] or ["C%02d" % i for i in range(1, 21)]
props = {json.loads(l)["id"]: json.loads(l) for l in open(os.path.join(here, "..", "properties.jsonl"))}
t0 = open(os.path.join(here, "mutation_prompt.txt")).read()
os.makedirs("/tmp/mut", exist_ok=True)
for id in ids:
    tried = []
    for d in sorted(glob.glob(os.path.join(here, "..", "seeded", id + "*"))):
        try:
            tried.append(json.load(open(d + "/meta.json"))["what_it_is"].split(" - ", 1)[-1][:160])
        except Exception:
            tried.append(os.path.basename(d))
    wt = "/tmp/mut/%s%s" % (id, suffix)
    note = ""
    if tried:
        note = ("NOTE: other engineers have already produced changes in these areas:\n%s\nChoose a DIFFERENT function and a different "
                "mechanism - ideally a different source file, a different clause of the property, a different container kind / operation "
                "/ representation named in it, or TWO cooperating sites that each look fine alone. Changes that only manifest after a "
                "specific multi-step history are especially welcome.\n\n" % "\n".join("  - " + x for x in tried))
    build = "Build line: `gcc -std=gnu99 -g -I%s/include demo.c %s/libCello.a -lpthread -lm -o demo`." % (wt, wt)
    if id == "C18":
        build = ("For this property the demo is a shell script demo.sh plus demo.c: demo.sh builds the library sources together with demo.c in "
                 "several configurations (default, -DCELLO_NDEBUG, -DCELLO_CACHE=0, -DCELLO_NGC, -O2, combinations) and compares the outputs; "
                 "PASS = all exit 0 with identical output. The default-configuration build of demo.c alone must still exit 0 on the original "
                 "library. Default " + build[0].lower() + build[1:] + " demo.sh must take the library tree as its first argument and create its "
                 "temporary files with mktemp under /tmp.")
    p = props[id]
    t = (t0.replace("__NOTE__", note).replace("__BUILD__", build).replace("__WT__", wt).replace("__ID__", id + suffix)
         .replace("__PROP__", p["statement"]))
    open("/tmp/mut/%s%s.prompt.txt" % (id, suffix), "w").write(t)
    subprocess.run(["git", "-C", "/repo", "worktree", "add", "-f", "--detach", wt, "HEAD", "-q"], check=False)
print("prepared", len(ids))
