#!/usr/bin/env python3
"""One-off: find short strings whose MurmurHash64A (seed 0xCe110) collide modulo the Table sizes.
Writes lib/vf/data/strkeys.json: families of strings with identical residues mod 5, 11, 23 (and 53)."""
import sys, os, json, itertools
sys.path.insert(0, os.path.join(os.path.dirname(__file__), "..", "lib"))
from vf.gen import murmur64a
fam = {}
fam53 = {}
n = 0
alphabet = b"abcdefghijklmnopqrstuvwxyz0123456789"
for L in (2, 3, 4):
    for t in itertools.product(alphabet, repeat=L):
        s = bytes(t)
        h = murmur64a(s)
        key = (h % 5, h % 11, h % 23)
        fam.setdefault(key, [])
        if len(fam[key]) < 40:
            fam[key].append(s.hex())
        k53 = key + (h % 53,)
        fam53.setdefault(k53, [])
        if len(fam53[k53]) < 12:
            fam53[k53].append(s.hex())
        n += 1
        if n > 600000:
            break
    if n > 600000:
        break
out = {"same_home_5_11_23": [], "same_home_5_11_23_53": []}
# families with home slot 0 and home slot = last (residue p-1) first
def pick(d, want, cnt):
    ks = [k for k in d if len(d[k]) >= cnt]
    pri = [k for k in ks if all(r == 0 for r in k)] + [k for k in ks if k[0] == 4 and k[1] == 10 and k[2] == 22]
    rest = [k for k in ks if k not in pri]
    res = []
    for k in (pri + rest)[:want]:
        res.append({"residues": list(k), "keys": d[k][:cnt]})
    return res
out["same_home_5_11_23"] = pick(fam, 6, 40)
out["same_home_5_11_23_53"] = pick(fam53, 4, 8)
json.dump(out, open(os.path.join(os.path.dirname(__file__), "..", "lib", "vf", "data", "strkeys.json"), "w"))
print(n, [(f["residues"], len(f["keys"])) for f in out["same_home_5_11_23"]], [(f["residues"], len(f["keys"])) for f in out["same_home_5_11_23_53"]])
