#!/bin/sh
# run the repository's own test suite (guard off) in the given tree (default /repo); prints passed/failed counts
d="${1:-/repo}"
out="$(make -C "$d" check 2>&1)"
p=$(printf '%s\n' "$out" | grep -c 'Passed!')
f=$(printf '%s\n' "$out" | grep -c 'Failed!')
echo "passed=$p failed=$f"
[ "$p" -ge 132 ] && [ "$f" -eq 0 ]
