#!/bin/sh
# verify an independently written breaking change before keeping it:
#   tools/verify_seeded.sh <dir with patch.diff demo.c README.txt> <name> <property id>
# confirms in a fresh scratch worktree of /repo HEAD: demo PASSES without the change, FAILS with it, and the
# repository's own suite still passes with it; then stores it under /verif/seeded/<name>/ with meta.json.
src="$1"; name="$2"; prop="$3"
root="$(cd "$(dirname "$0")/.." && pwd)"
wt="/tmp/vs-$name-$$"
git -C /repo worktree add -f --detach "$wt" HEAD >/dev/null 2>&1 || exit 2
cleanup() { git -C /repo worktree remove --force "$wt" >/dev/null 2>&1; rm -rf "$wt"; }
trap cleanup EXIT
cd "$wt" || exit 2
# some demos keep their scratch files in the author's output directory
for dd in $(grep -oh '/tmp/mut/[A-Za-z0-9_]*\.out' "$src"/demo.* 2>/dev/null | sort -u); do mkdir -p "$dd"; done
make -s >/dev/null 2>&1 || { echo "build of original failed"; exit 2; }
gcc -std=gnu99 -g -w -I"$wt/include" "$src/demo.c" "$wt/libCello.a" -lpthread -lm -o "$wt/demo" || { echo "demo does not build"; exit 2; }
timeout 20 ./demo >/tmp/vs-$$.o1 2>&1; r1=$?
git apply "$src/patch.diff" || { echo "patch does not apply"; exit 2; }
make -s >/dev/null 2>&1 || { echo "build with change failed"; exit 2; }
gcc -std=gnu99 -g -w -I"$wt/include" "$src/demo.c" "$wt/libCello.a" -lpthread -lm -o "$wt/demo" || { echo "demo does not build (changed)"; exit 2; }
timeout 20 ./demo >/tmp/vs-$$.o2 2>&1; r2=$?
suite="$("$root/tools/suite.sh" "$wt")"; rs=$?
echo "original: exit=$r1 ($(tail -1 /tmp/vs-$$.o1))  changed: exit=$r2 ($(tail -1 /tmp/vs-$$.o2 | cut -c1-80))  suite: $suite"
rm -f /tmp/vs-$$.o1 /tmp/vs-$$.o2
if [ "$r1" -eq 0 ] && [ "$r2" -ne 0 ] && [ "$rs" -eq 0 ]; then
  mkdir -p "$root/seeded/$name"
  cp "$src/patch.diff" "$src/demo.c" "$root/seeded/$name/"
  cp "$src/README.txt" "$root/seeded/$name/README.txt" 2>/dev/null
  python3 - "$root/seeded/$name/meta.json" "$prop" "$r1" "$r2" "$suite" <<'PY'
import json,sys,os,re
rd=os.path.join(os.path.dirname(sys.argv[1]),"README.txt")
txt=open(rd,errors="replace").read() if os.path.exists(rd) else ""
paras=re.split(r"\n\s*\n",txt)
need=[p.strip() for p in paras if re.search(r"manifest|NEEDED|Needs|needs", p)]
json.dump({"property": sys.argv[2], "source": "independent sub-agent given only the property text and a scratch worktree",
           "what_it_is": re.sub(r"\s+"," ",paras[0].strip())[:400] if paras else "",
           "needs_to_manifest": (re.sub(r"\s+"," ",need[0])[:700] if need else "see README.txt"), "verified": {"demo_exit_original": int(sys.argv[3]), "demo_exit_changed": int(sys.argv[4]), "suite_with_change": sys.argv[5]},
           "commands": ["tools/verify_seeded.sh (fresh worktree of /repo HEAD: make; demo; git apply patch.diff; make; demo; make check)", "tools/run_seeded.py <name>"]},
          open(sys.argv[1], "w"), indent=1)
PY
  echo "KEPT seeded/$name"
else
  echo "REJECTED"
  exit 1
fi
