#!/usr/bin/env python3
"""Sensitivity run over the hand-planned textual mutants in tools/mutants.json (DESIGN.md section 4 'Mutants').
For each: scratch worktree of /repo HEAD, apply the textual replacement, check that it compiles and that the
repository's own suite still passes (otherwise the mutant is 'not-eligible'), run the property's quick check with
VERIF_REPO pointing at the worktree, record caught / missed in seeded/planned_results.json."""
import os, sys, json, subprocess, time, shutil
ROOT = os.path.dirname(os.path.dirname(os.path.abspath(__file__)))
muts = json.load(open(os.path.join(ROOT, "tools", "mutants.json")))
only = set(sys.argv[1:])
outp = os.path.join(ROOT, "seeded", "planned_results.json")
results = json.load(open(outp)) if os.path.exists(outp) else {}
for m in muts:
    if only and m["name"] not in only:
        continue
    wt = "/tmp/mutwt-%d" % os.getpid()
    subprocess.run(["git", "-C", "/repo", "worktree", "add", "-f", "--detach", wt, "HEAD"], check=True, capture_output=True)
    rec = {"property": m["property"], "file": m["file"]}
    try:
        p = os.path.join(wt, m["file"])
        s = open(p).read()
        n = s.count(m["old"])
        if n == 0 or (n > 1 and not m.get("first_only")):
            rec["status"] = "pattern-not-found" if n == 0 else "pattern-ambiguous(%d)" % n
        else:
            open(p, "w").write(s.replace(m["old"], m["new"], 1))
            r = subprocess.run([os.path.join(ROOT, "tools", "suite.sh"), wt], capture_output=True, text=True)
            rec["suite"] = r.stdout.strip()[-60:]
            if r.returncode != 0:
                rec["status"] = "not-eligible (suite fails or does not build)"
            else:
                t0 = time.time()
                c = subprocess.run([os.path.join(ROOT, "check"), m["property"], "--tier", "quick"], capture_output=True, text=True,
                                   env=dict(os.environ, VERIF_REPO=wt), cwd=ROOT)
                viol = any(l.startswith("VIOLATION") for l in c.stdout.splitlines())
                fail = [l.strip() for l in c.stdout.splitlines() if l.strip().startswith("failure:")]
                rec["status"] = "caught" if viol else ("error" if c.returncode == 3 else "MISSED")
                rec["first_failure"] = fail[0][:200] if fail else c.stdout.strip()[-200:]
                rec["wall_s"] = round(time.time() - t0, 1)
    finally:
        subprocess.run(["git", "-C", "/repo", "worktree", "remove", "--force", wt], capture_output=True)
        shutil.rmtree(wt, ignore_errors=True)
    results[m["name"]] = rec
    json.dump(results, open(outp, "w"), indent=1)
    print(m["name"], rec["status"], rec.get("wall_s", ""), flush=True)
