#!/usr/bin/env python3
"""Regenerate MANIFEST.json from tools/manifest_src.json (claimed checks) + properties.jsonl."""
import json, os, subprocess
here = os.path.dirname(os.path.dirname(os.path.abspath(__file__)))
src = json.load(open(os.path.join(here, "tools", "manifest_src.json")))
props = [json.loads(l)["id"] for l in open(os.path.join(here, "properties.jsonl"))]
checks = []
for pid in props:
    c = src["checks"].get(pid)
    if not c:
        continue
    checks.append({
        "property_id": pid,
        "quick_cmd": c.get("quick_cmd", "./check %s --tier quick" % pid),
        "thorough_cmd": c.get("thorough_cmd", "./check %s --tier thorough" % pid),
        "evidence_file": "/verif/evidence/%s.json" % pid,
        "replay_cmd_template": "./check %s --replay {path}" % pid,
        "engine": c.get("engine", "hypothesis+c-executor"),
        "level_claimed": {"category": c.get("category", "exploration"), "text": c["text"], "design_ref": c.get("design_ref", "DESIGN.md section 4 " + pid)},
        "level_note": c["note"],
        "technique": c["technique"],
    })
na = [{"property_id": p, "reason": src["not_applicable"].get(p, "check not built yet (work in progress; see DESIGN.md section 7)")}
      for p in props if p not in src["checks"]]
m = {"version": 1, "setup_cmd": src["setup_cmd"], "hooks": src["hooks"], "engines": src["engines"],
     "checks": checks, "notes": src["notes"], "not_applicable": na}
json.dump(m, open(os.path.join(here, "MANIFEST.json"), "w"), indent=1)
print("checks:", len(checks), "not_applicable:", len(na))
