#!/bin/sh
# re-verify every kept seeded change against the current /repo HEAD (demo passes without, fails with, suite passes with)
# usage: tools/reverify_all.sh [parallelism]   -> prints one line per change; non-OK lines need attention
cd "$(dirname "$0")/.."
par="${1:-4}"
ls -d seeded/C*/ | xargs -P "$par" -I{} sh -c '
  d="{}"; n=$(basename "$d"); p=$(jq -r .property "$d/meta.json")
  tmp=$(mktemp -d /tmp/rv-XXXXXX); cp "$d"/patch.diff "$tmp"/; cp "$d"/demo.* "$tmp"/ 2>/dev/null; cp "$d"/README.txt "$tmp"/ 2>/dev/null
  if [ -f "$d/demo.sh" ]; then echo "SKIP-SH $n"; rm -rf "$tmp"; exit 0; fi
  out=$(tools/verify_seeded.sh "$tmp" "$n-rv" "$p" 2>&1 | tail -2 | tr "\n" " ")
  if [ -d "seeded/$n-rv" ]; then rm -rf "seeded/$n-rv"; echo "OK $n"; else echo "BAD $n :: $out"; fi
  rm -rf "$tmp"'
